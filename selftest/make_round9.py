#!/usr/bin/env python3
"""make_round9.py <tag> <kind> <ids...>
kind = break : one agent per property id; the task holds ONLY that property's record and
               generic notes on how to drive the module in a test (nothing about /verif).
kind = benign: ids are free labels; each agent gets all 20 statements and is asked for
               behaviour-preserving changes (used to hunt false alarms of the checks).
Creates scratch worktrees /tmp/w<tag>-<id> of /repo with out/TASK.md."""
import json, os, subprocess, sys
tag, kind, ids = sys.argv[1], sys.argv[2], sys.argv[3:]
props = [json.loads(l) for l in open('/verif/properties.jsonl')]
byid = {p['id']: p for p in props}

HOWTO = '''How to drive the module in a test: app := simapp.Setup(false) (import simapp "github.com/irismod/service/app"); ctx := app.BaseApp.NewContext(false, tmproto.Header{{Height: h, Time: t}}); k := app.ServiceKeeper; fund accounts with simapp.AddTestAddrs(app, ctx, n, sdk.NewInt(amt)); the message handler is service.NewHandler(k) (import service "github.com/irismod/service") and must be called with a ctx that carries ctx.WithValue(types.TxHash, <32 bytes>).WithValue(types.MsgIndex, int64(0)) (MsgCallService panics otherwise); end-of-block processing is service.EndBlocker(ctx.WithBlockHeight(h), k); advance height/time yourself with ctx.WithBlockHeight / WithBlockTime; parameters via k.SetParams(ctx, params); balances via app.BankKeeper.GetBalance / GetSupply; module accounts via app.AccountKeeper.GetModuleAddress(types.RequestAccName / types.DepositAccName). Other modules create contexts through k.CreateRequestContext(..., moduleName) after k.RegisterResponseCallback / k.RegisterStateCallback, and reserve a service with k.RegisterModuleService. Queries: the keeper implements types.QueryServer; keeper.NewQuerier(k, app.LegacyAmino()) is the legacy querier. Genesis: service.ExportGenesis / InitGenesis / PrepForZeroHeightGenesis, types.ValidateGenesis, app.AppCodec() for JSON. keeper/keeper_test.go shows basic usage. MsgUpdateServiceBinding needs options "{{}}".'''

PRE = '''You are working in a scratch git worktree of the Go repository irismod/service (IRISnet 'service' Cosmos-SDK module: service definitions, provider bindings with deposits, request contexts with batched invocations, fees, slashing, expiry) at {wt}. Work ONLY inside {wt}. Do NOT read or touch /repo or /verif or other directories under /tmp. Do NOT use `git stash` (the stash is shared with other worktrees); use `git diff > file` / `git apply` / `git checkout -- .` instead. The sandbox is offline; in every shell call first run: export GOFLAGS=-mod=mod GOPROXY=off GOSUMDB=off GOTOOLCHAIN=local DBUS_SESSION_BUS_ADDRESS=unix:path=/nonexistent . The existing test suite is run with: go test -vet=off -count=1 $(go list ./... | grep -v /out)  (about 20-60 s; the machine is busy).
'''

BREAK = PRE + '''
The module is supposed to satisfy this PROPERTY (its full record: statement, the domain it is quantified over, why unit tests cannot settle it, the code it is anchored in):

{rec}

TASK: produce TWO independent source changes (m1, m2) (non-test code only, any file of the repository) that each BREAK this property while (a) the repository still compiles (go build ./...) and (b) the complete existing test suite still passes unchanged. Each change must be realistic (a slip, a plausible refactor or 'optimisation', a well-meant 'fix') and must need something specific to manifest, not something ordinary use would expose at once: a particular multi-step sequence of operations across blocks, an unusual input or boundary value, a particular parameter setting, a fault or particular ordering inside one block, or two cooperating sites that each look fine alone. Use the QUANTIFIER of the property: pick input classes, schedules or histories named there. The two changes must be of different kinds and touch different code.

For each change write a demonstration: a NEW Go test file (package keeper_test in keeper/, package types_test in types/, or package service_test in the repo root) that FAILS with the change applied and PASSES on the unchanged code. ''' + HOWTO + '''

DELIVERABLES in {wt}/out/ (a file out/go.mod containing `module out` already exists so that ./... ignores out/): m1.diff (output of `git diff`, ONLY the non-test source change), m1_demo_test.go (copy of the demo test), m1.md (FIRST LINE exactly `PROPERTY: {pid}`; then 3-10 lines: what was changed, why it breaks the property, exactly what is needed for it to manifest, observed fail/pass), and likewise for m2. Verify each yourself: with the patch applied `go build ./...` and the existing suite pass (demo absent) and the demo fails; with the patch reverted the demo passes. At the end restore the worktree sources (git checkout -- . and remove demo files from the source dirs). Final answer: a 4-line summary.
'''

BENIGN = PRE + '''
The module is supposed to satisfy these 20 PROPERTIES (statements):
{props}

TASK: you play a maintainer. Produce THREE independent source changes (b1, b2, b3) (non-test code only) that are realistic maintenance work and that PRESERVE every one of the 20 properties above and all externally observable behaviour that those statements talk about (balances, stored records and their keys, accept/reject decisions, schedules, callbacks, query answers, genesis export/import): the code must stay correct. Your focus area: {focus}. Make the changes non-trivial (20-120 changed lines each): restructure control flow, reorder independent operations, replace a scan by an equivalent one, cache a value within one call, change the order in which independent objects of one block are processed where the statements do not fix an order, add harmless extra events / attributes / log lines, rename internals, change error messages or error codes of rejections (but never WHETHER something is rejected), split or merge helper functions, add a new store record kind under an unused prefix that nothing depends on, tighten nothing and loosen nothing. (a) the repository must still compile (go build ./...) and (b) the complete existing test suite must still pass unchanged. For each change explain in b<i>.md (first line exactly `BENIGN`) what was changed and why no property is affected; if you are unsure that a change is behaviour-preserving, drop it and make another.

''' + HOWTO + '''

DELIVERABLES in {wt}/out/ (a file out/go.mod containing `module out` already exists): b1.diff (output of `git diff`, only non-test sources), b1.md, likewise b2, b3. Verify each yourself (build + suite with the patch applied). At the end restore the worktree sources (git checkout -- .). Final answer: a 4-line summary.
'''

FOCUS = {
 'A': 'abci.go (end-of-block processing: expiry handling and new batches) and keeper/invocation.go',
 'B': 'keeper/binding.go, keeper/definition.go, keeper/fees.go',
 'C': 'keeper/invocation.go (request contexts, requests, responses, filters), keeper/state_change.go, keeper/module_service.go',
 'D': 'genesis.go, types/genesis.go, keeper/grpc_query.go, keeper/querier.go',
 'E': 'types/keys.go (helpers only: the byte layout of every key must not change), types/invocation.go, types/binding.go, types/msgs.go (validation messages only), keeper/oracle_price.go, keeper/params.go',
}

for id in ids:
    wt = f'/tmp/w{tag}-{id}'
    subprocess.run(['git', '-C', '/repo', 'worktree', 'add', '--detach', wt, 'HEAD', '-q'], check=True)
    os.makedirs(wt + '/out', exist_ok=True)
    open(wt + '/out/go.mod', 'w').write('module out\n')
    if kind == 'break':
        p = byid[id]
        rec = json.dumps({k: p[k] for k in ('id', 'title', 'statement', 'quantifier', 'why_tests_cant', 'anchors')}, indent=1)
        txt = BREAK.format(wt=wt, rec=rec, pid=id)
    else:
        ptxt = '\n'.join(f"- {p['id']} ({p['title']}): {p['statement']}" for p in props)
        txt = BENIGN.format(wt=wt, props=ptxt, focus=FOCUS[id])
    open(wt + '/out/TASK.md', 'w').write(txt)
    print(wt, len(txt))
