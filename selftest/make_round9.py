#!/usr/bin/env python3
"""make_round9.py <tag> <kind> <ids...>
kind = break : one agent per property id; the task holds ONLY that property's record and
               generic notes on how to drive the module in a test (nothing about /verif).
kind = benign: ids are free labels; each agent gets all 20 statements and is asked for
               behaviour-preserving changes (used to hunt false alarms of the checks).
Creates scratch worktrees /tmp/w<tag>-<id> of /repo with out/TASK.md."""
import json, os, subprocess, sys
tag, kind, ids = sys.argv[1], sys.argv[2], sys.argv[3:]
props = [json.loads(l) for l in open('/verif/properties.jsonl')]
byid = {p['id']: p for p in props}

HOWTO = '''How to drive the module in a test: app := simapp.Setup(false) (import simapp "github.com/irismod/service/app"); ctx := app.BaseApp.NewContext(false, tmproto.Header{{Height: h, Time: t}}); k := app.ServiceKeeper; fund accounts with simapp.AddTestAddrs(app, ctx, n, sdk.NewInt(amt)); the message handler is service.NewHandler(k) (import service "github.com/irismod/service") and must be called with a ctx that carries ctx.WithValue(types.TxHash, <32 bytes>).WithValue(types.MsgIndex, int64(0)) (MsgCallService panics otherwise); end-of-block processing is service.EndBlocker(ctx.WithBlockHeight(h), k); advance height/time yourself with ctx.WithBlockHeight / WithBlockTime; parameters via k.SetParams(ctx, params); balances via app.BankKeeper.GetBalance / GetSupply; module accounts via app.AccountKeeper.GetModuleAddress(types.RequestAccName / types.DepositAccName). Other modules create contexts through k.CreateRequestContext(..., moduleName) after k.RegisterResponseCallback / k.RegisterStateCallback, and reserve a service with k.RegisterModuleService. Queries: the keeper implements types.QueryServer; keeper.NewQuerier(k, app.LegacyAmino()) is the legacy querier. Genesis: service.ExportGenesis / InitGenesis / PrepForZeroHeightGenesis, types.ValidateGenesis, app.AppCodec() for JSON. keeper/keeper_test.go shows basic usage. MsgUpdateServiceBinding needs options "{{}}".'''

PRE = '''You are working in a scratch git worktree of the Go repository irismod/service (IRISnet 'service' Cosmos-SDK module: service definitions, provider bindings with deposits, request contexts with batched invocations, fees, slashing, expiry) at {wt}. Work ONLY inside {wt}. Do NOT read or touch /repo or /verif or other directories under /tmp. Do NOT use `git stash` (the stash is shared with other worktrees); use `git diff > file` / `git apply` / `git checkout -- .` instead. The sandbox is offline; in every shell call first run: export GOFLAGS=-mod=mod GOPROXY=off GOSUMDB=off GOTOOLCHAIN=local DBUS_SESSION_BUS_ADDRESS=unix:path=/nonexistent . The existing test suite is run with: go test -vet=off -count=1 $(go list ./... | grep -v /out)  (about 20-60 s; the machine is busy).
'''

BREAK = PRE + '''
The module is supposed to satisfy this PROPERTY (its full record: statement, the domain it is quantified over, why unit tests cannot settle it, the code it is anchored in):

{rec}

TASK: produce TWO independent source changes (m1, m2) (non-test code only, any file of the repository) that each BREAK this property while (a) the repository still compiles (go build ./...) and (b) the complete existing test suite still passes unchanged. Each change must be realistic (a slip, a plausible refactor or 'optimisation', a well-meant 'fix') and must need something specific to manifest, not something ordinary use would expose at once: a particular multi-step sequence of operations across blocks, an unusual input or boundary value, a particular parameter setting, a fault or particular ordering inside one block, or two cooperating sites that each look fine alone. Use the QUANTIFIER of the property: pick input classes, schedules or histories named there. The two changes must be of different kinds and touch different code.

For each change write a demonstration: a NEW Go test file (package keeper_test in keeper/, package types_test in types/, or package service_test in the repo root) that FAILS with the change applied and PASSES on the unchanged code. ''' + HOWTO + '''

DELIVERABLES in {wt}/out/ (a file out/go.mod containing `module out` already exists so that ./... ignores out/): m1.diff (output of `git diff`, ONLY the non-test source change), m1_demo_test.go (copy of the demo test), m1.md (FIRST LINE exactly `PROPERTY: {pid}`; then 3-10 lines: what was changed, why it breaks the property, exactly what is needed for it to manifest, observed fail/pass), and likewise for m2. Verify each yourself: with the patch applied `go build ./...` and the existing suite pass (demo absent) and the demo fails; with the patch reverted the demo passes. At the end restore the worktree sources (git checkout -- . and remove demo files from the source dirs). Final answer: a 4-line summary.
'''

BENIGN = PRE + '''
The module is supposed to satisfy these 20 PROPERTIES (statements):
{props}

TASK: you play a maintainer. Produce THREE independent source changes (b1, b2, b3) (non-test code only) that are realistic maintenance work and that PRESERVE every one of the 20 properties above and all externally observable behaviour that those statements talk about (balances, stored records and their keys, accept/reject decisions, schedules, callbacks, query answers, genesis export/import): the code must stay correct. Your focus area: {focus}. Make the changes non-trivial (20-120 changed lines each): restructure control flow, reorder independent operations, replace a scan by an equivalent one, cache a value within one call, change the order in which independent objects of one block are processed where the statements do not fix an order, add harmless extra events / attributes / log lines, rename internals, change error messages or error codes of rejections (but never WHETHER something is rejected), split or merge helper functions, add a new store record kind under an unused prefix that nothing depends on, tighten nothing and loosen nothing. (a) the repository must still compile (go build ./...) and (b) the complete existing test suite must still pass unchanged. For each change explain in b<i>.md (first line exactly `BENIGN`) what was changed and why no property is affected; if you are unsure that a change is behaviour-preserving, drop it and make another.

''' + HOWTO + '''

DELIVERABLES in {wt}/out/ (a file out/go.mod containing `module out` already exists): b1.diff (output of `git diff`, only non-test sources), b1.md, likewise b2, b3. Verify each yourself (build + suite with the patch applied). At the end restore the worktree sources (git checkout -- .). Final answer: a 4-line summary.
'''

THEME = BREAK.replace("must need something specific to manifest, not something ordinary use would expose at once:", "must need something specific to manifest, not something ordinary use would expose at once. FOR THIS TASK THE MANIFESTATION CONDITION IS PRESCRIBED: {theme} Within that, think of:")

PERMITTED = PRE + '''
The module is supposed to satisfy these 20 PROPERTIES (statements):
{props}

TASK: you play a maintainer who changes BEHAVIOUR, but only in ways these 20 statements PERMIT. Produce THREE independent source changes (p1, p2, p3) (non-test code only) after which every one of the 20 statements above is still true for every history, although observable behaviour differs from today in some respect the statements leave open. Your focus area: {focus}. Read the statements closely for what they do NOT fix, for example: the order in which independent contexts / requests of one block are processed; which events are emitted, their attributes and order; error codes and messages of rejections; when exactly (earlier than required) finished or useless records are cleaned up; whether a rejected operation is rejected by stateless or stateful validation; additional validation that rejects inputs nobody needs (only where no statement promises acceptance); extra bookkeeping records under unused store prefixes; extra fields in query answers; rounding choices where the statement gives a range; the moment inside a step at which coins move. Each change must be realistic, 15-100 changed lines, must compile (go build ./...) and the complete existing test suite must still pass unchanged. For each change explain in p<i>.md (first line exactly `PERMITTED`) what behaviour changed and, statement by statement where relevant, why each of the 20 properties still holds. If you are not sure a property still holds, drop the change and make another.

''' + HOWTO + '''

DELIVERABLES in {wt}/out/ (a file out/go.mod containing `module out` already exists): p1.diff (output of `git diff`, only non-test sources), p1.md, likewise p2, p3. Verify each yourself (build + suite with the patch applied). At the end restore the worktree sources (git checkout -- .). Final answer: a 4-line summary.
'''

FOCUS = {
 'A': 'abci.go (end-of-block processing: expiry handling and new batches) and keeper/invocation.go',
 'B': 'keeper/binding.go, keeper/definition.go, keeper/fees.go',
 'C': 'keeper/invocation.go (request contexts, requests, responses, filters), keeper/state_change.go, keeper/module_service.go',
 'D': 'genesis.go, types/genesis.go, keeper/grpc_query.go, keeper/querier.go',
 'F': 'genesis.go (InitGenesis, ExportGenesis, PrepForZeroHeightGenesis) and types/genesis.go (ValidateGenesis): what is validated, normalised, ordered, cleaned up or refused around export / import',
 'G': 'keeper/params.go, types/params.go and every place where a module parameter is read (think of what happens to existing objects when governance changes a parameter, where the statements leave that open)',
 'H': 'the request-context lifecycle in keeper/invocation.go and abci.go: pause / start / kill / update and the expiry and new-batch handlers (think of earlier clean-up, different but valid ordering, extra rejections)',
 'E': 'types/keys.go (helpers only: the byte layout of every key must not change), types/invocation.go, types/binding.go, types/msgs.go (validation messages only), keeper/oracle_price.go, keeper/params.go',
}

THEMES = {
 'long': 'the change must stay invisible for at least 25 blocks or 10 batches of one context and show only after that (counters crossing a boundary, accumulated volume or earnings, a value that drifts, state left behind by a much earlier operation).',
 'many': 'the change must show only when many objects of one kind exist at once (at least 8: providers in one context, contexts due in one block, bindings of one service or owner, requests pending for one provider, services with related names).',
 'modapi': 'the change must show only through the API that OTHER MODULES use (keeper.CreateRequestContext with a module name, Update/Pause/Start/Kill by the module, RegisterResponseCallback / RegisterStateCallback and what the callbacks see and do, RegisterModuleService and RequestModuleService); contexts created by ordinary MsgCallService must behave exactly as before.',
 'genesis': 'the change must show only around genesis: ExportGenesis, PrepForZeroHeightGenesis, ValidateGenesis, InitGenesis (also of a genesis written by a host chain by hand), and what happens on the chain AFTER an import (the imported state must then misbehave, or the export must lose / alter something).',
 'params': 'the change must show only when a module parameter (max request timeout, service fee tax, slash fraction, complaint retrospect, arbitration time limit, tx size limit - not the minimum deposit terms or the base denomination) is CHANGED by governance while objects created under the old value still exist.',
 'bytes': 'the change must show only for unusual but valid byte patterns: addresses of unusual length or with particular bytes, service names that are prefixes of one another or contain separators, JSON texts with unusual but valid syntax (whitespace, escapes, big numbers, duplicate keys, nested objects), transaction hashes with particular bytes.',
 'sameblock': 'the change must show only when two or more specific operations fall into the SAME block or the same transaction (several messages of one transaction, a message in the very block in which a batch starts or expires, two contexts of one consumer or one provider due in one block, expiry and next start in one block).',
 'twosites': 'the change must consist of TWO edits in different functions (preferably different files) such that each edit alone leaves the property intact and only both together break it.',
 'order': 'the change must alter the ORDER of two operations inside one function (a write before a check, a delete before a read, a transfer before a record update, an event before a state change, an iteration that mutates what it iterates) in a way that is harmless in ordinary flows.',
 'wiring': 'the change must be in the WIRING, not in the business logic: app/app.go (keeper construction, module account permissions, blocked addresses, store keys, order of begin/end blockers and of genesis init), module.go (routes, querier and gRPC registration, genesis entry points, EndBlock), handler.go (message routing), keeper/keeper.go (constructor, fields), keeper/params.go, types/codec.go, types/expected_keepers.go. The demonstration should drive the application (simapp) rather than isolated keeper functions where that matters.',
 'validation': 'the change must be in STATELESS or structural validation (types/msgs.go ValidateBasic and its helpers, types/binding.go / definition.go / invocation.go Validate functions, types/schema.go, types/genesis.go, types/params.go): a check loosened, reordered, applied to the wrong field or skipped for a special case, so that an input which used to be refused now reaches the keeper and misbehaves there (or a stored object is no longer what validation promises).',
 'cache': 'the change must introduce or alter REUSED STATE: a memo or cache (inside one call, one block, the keeper struct, or package level), a reused buffer or slice, a value captured before a write and used after it, a pointer or slice aliasing something that is modified later. Ordinary single-object flows must behave exactly as before.',
 'iterator': 'the change must be about ITERATION over the store: prefix and range bounds, end keys, reverse iteration, iterating while deleting or writing, closing iterators, early break / continue conditions, helper functions that build sub-space keys, collecting keys first versus acting during the scan.',
 'numeric': 'the change must be about NUMBERS: integer/decimal conversions, truncation vs rounding, int64/uint64/uint32 casts, comparisons (< vs <=), zero and negative values, very large amounts, multiplication order, values near 2^31, 2^32, 2^63.',
}

for id in ids:
    wt = f'/tmp/w{tag}-{id.replace("@", "-")}'
    subprocess.run(['git', '-C', '/repo', 'worktree', 'add', '--detach', wt, 'HEAD', '-q'], check=True)
    os.makedirs(wt + '/out', exist_ok=True)
    open(wt + '/out/go.mod', 'w').write('module out\n')
    if kind == 'break':
        p = byid[id]
        rec = json.dumps({k: p[k] for k in ('id', 'title', 'statement', 'quantifier', 'why_tests_cant', 'anchors')}, indent=1)
        txt = BREAK.format(wt=wt, rec=rec, pid=id)
    elif kind == 'theme':
        pid, th = id.split('@')
        p = byid[pid]
        rec = json.dumps({k: p[k] for k in ('id', 'title', 'statement', 'quantifier', 'why_tests_cant', 'anchors')}, indent=1)
        txt = THEME.format(wt=wt, rec=rec, pid=pid, theme=THEMES[th])
    elif kind == 'permitted':
        ptxt = '\n'.join(f"- {p['id']} ({p['title']}): {p['statement']}" for p in props)
        txt = PERMITTED.format(wt=wt, props=ptxt, focus=FOCUS[id[0]])
    else:
        ptxt = '\n'.join(f"- {p['id']} ({p['title']}): {p['statement']}" for p in props)
        txt = BENIGN.format(wt=wt, props=ptxt, focus=FOCUS[id])
    open(wt + '/out/TASK.md', 'w').write(txt)
    print(wt, len(txt))
