#!/bin/bash
# run_seeded.sh [name-glob]   (default: all)
# The official procedure: apply each seeded change to /repo itself, run the property's
# quick check (which rebuilds from /repo's working tree), undo the change straight
# afterwards. Prints one line per seeded change and leaves /repo clean.
set -u
cd /verif
pat="${1:-*}"
for d in seeded/$pat/; do
  name=$(basename "$d")
  prop=$(python3 -c "import json;print(json.load(open('$d/meta.json'))['breaks_property'])")
  tier=$(python3 -c "import json;print(json.load(open('$d/meta.json')).get('tier','quick'))")
  [ "$tier" = "-" ] && { echo "SEEDED $name prop=$prop SKIPPED (recorded as not detected)"; continue; }
  if ! git -C /repo apply "/verif/$d/patch.diff" 2>/dev/null && ! git -C /repo apply -3 "/verif/$d/patch.diff" 2>/dev/null; then
    echo "SEEDED $name prop=$prop PATCH-DOES-NOT-APPLY"; git -C /repo checkout -- . ; continue
  fi
  out=$(./check.sh "$prop" "$tier" 2>&1); rc=$?
  git -C /repo checkout -- . ; git -C /repo reset -q
  nv=$(echo "$out" | grep -c '^VIOLATION')
  sig=$(echo "$out" | grep -m2 'signature=' | sed 's/.*signature=\([^ ]*\).*/\1/' | tr '\n' ' ')
  if [ $rc = 1 ] && [ $nv -gt 0 ]; then echo "SEEDED $name prop=$prop CAUGHT violations=$nv $sig"; else echo "SEEDED $name prop=$prop MISSED rc=$rc"; fi
done
git -C /repo status --short
