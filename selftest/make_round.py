#!/usr/bin/env python3
"""make_round.py <round-tag> : prepares scratch worktrees /tmp/w<round>-<id> of /repo and a
self-contained TASK.md for each sub-agent (property texts + target + ideas already used).
Nothing from /verif other than the property texts and one-line summaries of earlier seeded
changes goes into the task. Targets are read from the TARGETS dict below."""
import json, os, subprocess, sys
tag = sys.argv[1]
props = [json.loads(l) for l in open('/verif/properties.jsonl')]
byid = {p['id']: p for p in props}
ptxt = '\n'.join(f"- {p['id']} ({p['title']}): {p['statement']}" for p in props)
tried = []
for d in sorted(os.listdir('/verif/seeded')):
    if 'own' in d or d.startswith('_'):
        continue
    md = json.load(open(f'/verif/seeded/{d}/meta.json'))['needs_to_manifest']
    md = md.replace('PROPERTY:', '').strip()
    tried.append('- ' + ' '.join(md.split('\n'))[:130])
triedtxt = '\n'.join(tried)
TARGETS = json.load(open(sys.argv[2]))
TMPL = '''You are working in a scratch git worktree of the Go repository irismod/service (IRISnet 'service' Cosmos-SDK module: service definitions, provider bindings with deposits, request contexts with batched invocations, fees, slashing, expiry) at {wt}. Work ONLY inside {wt}. Do NOT read or touch /repo or /verif. Do NOT use `git stash` (the stash is shared with other worktrees); use `git diff > file` / `git apply` / `git checkout -- .` instead. The sandbox is offline; in every shell call first run: export GOFLAGS=-mod=mod GOPROXY=off GOSUMDB=off GOTOOLCHAIN=local DBUS_SESSION_BUS_ADDRESS=unix:path=/nonexistent . The existing test suite is run with: go test -vet=off -count=1 $(go list ./... | grep -v /out)  (about 20 s; the machine may be busy).

The module is supposed to satisfy these 20 PROPERTIES:
{props}

YOUR TARGET: {target}

TASK: produce THREE independent source changes (m1, m2, m3) (non-test code only, any file of the repository) that each BREAK one of your target properties (say which) while (a) the repository still compiles (go build ./...) and (b) the complete existing test suite still passes unchanged. Each change must be realistic (a slip, a plausible refactor or 'optimisation', a well-meant 'fix') and HARD TO NOTICE: it must leave ordinary flows behaving exactly as before and need something specific and uncommon to manifest -- a rarely combined pair of features, several operations in a particular order across blocks, a boundary or very large value, a particular parameter setting (module parameters may change on a live chain by governance, except the minimum-deposit terms and the base denomination, which are fixed), many objects at once, a particular byte pattern in an address / name / JSON text, two cooperating sites, or state left over from a much earlier operation. Look for lines and ideas that the list below has NOT touched. The three changes must be of different kinds.

Ideas ALREADY used by others (do not repeat them or close variations):
{tried}

For each change write a demonstration: a NEW Go test file (package keeper_test in keeper/, package types_test in types/, or package service_test in the repo root) that FAILS with the change applied and PASSES on the unchanged code. How to drive the module in a test: app := simapp.Setup(false) (import simapp "github.com/irismod/service/app"); ctx := app.BaseApp.NewContext(false, tmproto.Header{{Height: h, Time: t}}); k := app.ServiceKeeper; fund accounts with simapp.AddTestAddrs(app, ctx, n, sdk.NewInt(amt)); the message handler is service.NewHandler(k) (import service "github.com/irismod/service") and must be called with a ctx that carries ctx.WithValue(types.TxHash, <32 bytes>).WithValue(types.MsgIndex, int64(0)) (MsgCallService panics otherwise); end-of-block processing is service.EndBlocker(ctx.WithBlockHeight(h), k); advance height/time yourself with ctx.WithBlockHeight / WithBlockTime; parameters via k.SetParams(ctx, params); balances via app.BankKeeper.GetBalance / GetSupply; module accounts via app.AccountKeeper.GetModuleAddress(types.RequestAccName / types.DepositAccName). Other modules create contexts through k.CreateRequestContext(..., moduleName) after k.RegisterResponseCallback / k.RegisterStateCallback, and reserve a service with k.RegisterModuleService. Queries: the keeper implements types.QueryServer (k.Binding(sdk.WrapSDKContext(ctx), &types.QueryBindingRequest{{...}}) etc.); keeper.NewQuerier(k, app.LegacyAmino()) is the legacy querier. Genesis: service.ExportGenesis / InitGenesis / PrepForZeroHeightGenesis, types.ValidateGenesis, app.AppCodec() for JSON (use 20-byte addresses there); the application module is service.NewAppModule(app.AppCodec(), k, app.AccountKeeper, app.BankKeeper). keeper/keeper_test.go shows basic usage. MsgUpdateServiceBinding needs options "{{}}".

DELIVERABLES in {wt}/out/ (a file out/go.mod containing `module out` already exists so that ./... ignores out/): m1.diff (output of `git diff`, ONLY the non-test source change), m1_demo_test.go (copy of the demo test), m1.md (FIRST LINE exactly `PROPERTY: Cxx` naming the property it breaks; then 3-10 lines: what was changed, why it breaks that property, exactly what is needed for it to manifest, observed fail/pass), and likewise for m2 and m3. Verify each yourself: with the patch applied `go build ./...` and the existing suite pass (demo absent) and the demo fails; with the patch reverted the demo passes. At the end restore the worktree sources (git checkout -- . and remove demo files from the source dirs). Final answer: a 6-line summary.
'''
for id, target in TARGETS.items():
    wt = f'/tmp/w{tag}-{id}'
    subprocess.run(['git', '-C', '/repo', 'worktree', 'add', '--detach', wt, 'HEAD', '-q'])
    os.makedirs(wt + '/out', exist_ok=True)
    open(wt + '/out/go.mod', 'w').write('module out\n')
    if isinstance(target, list):
        recs = '\n\n'.join(json.dumps({k: byid[p][k] for k in ('id', 'title', 'statement', 'quantifier', 'why_tests_cant', 'anchors')}, indent=1) for p in target)
        target = ('properties %s. Their full records (statement, the domain they are quantified over, why unit tests cannot settle them, the code they are anchored in):\n%s\n\nUse the QUANTIFIER: pick input classes, schedules or histories named there that are rare in practice and make your change show only for them.' % (' and '.join(target), recs))
    open(wt + '/out/TASK.md', 'w').write(TMPL.format(wt=wt, props=ptxt, target=target, tried=triedtxt))
    print(wt, len(open(wt + '/out/TASK.md').read()))
