#!/bin/bash
# eval_benign.sh <name> <patch.diff> : a behaviour-preserving change. Scratch worktree of /repo,
# patch applies, build, existing suite passes; then ALL properties' quick workloads are run
# against the patched copy. Any VIOLATION is a false alarm of the machinery (or the change is
# not as benign as claimed - to be decided by reading the witness).
set -u
NAME="$1"; PATCH="$2"
export GOFLAGS=-mod=mod GOPROXY=off GOSUMDB=off GOTOOLCHAIN=local
export DBUS_SESSION_BUS_ADDRESS=unix:path=/nonexistent DISABLE_KWALLET=1
W=/tmp/mut/$NAME
rm -rf "$W"; git -C /repo worktree prune
mkdir -p /tmp/mut
git -C /repo worktree add --detach "$W/repo" HEAD -q || exit 9
cd "$W/repo"
res() { echo "RESULT $NAME $*"; }
cleanup() { cd /; git -C /repo worktree remove --force "$W/repo" 2>/dev/null; rm -rf "$W/repo"; }
if ! git apply "$PATCH" 2>"$W/apply.log" && ! git apply -3 "$PATCH" 2>>"$W/apply.log"; then res "INVALID patch-does-not-apply"; cleanup; exit 3; fi
if ! go build ./... > "$W/build.log" 2>&1; then res "INVALID does-not-build"; cleanup; exit 3; fi
if ! go test -vet=off -count=1 ./... > "$W/suite.log" 2>&1; then res "INVALID existing-suite-fails"; cleanup; exit 3; fi
HD="${HARNESS_DIR:-/verif/harness}"
sed "s#=> /repo#=> $W/repo#" "$HD/go.mod" > "$W/harness.mod"
cp /repo/go.sum "$W/harness.sum"
cd "$HD"
if ! go build -tags verif -modfile="$W/harness.mod" -o "$W/chainmon" . > "$W/hbuild.log" 2>&1; then res "HARNESS-BUILD-FAILED $(head -3 $W/hbuild.log | tr '\n' ' ')"; cleanup; exit 4; fi
mkdir -p "$W/out"; cp /verif/known_findings.json "$W/out/" 2>/dev/null
"$W/chainmon" run -prop all -tier quick -seed "${VERIF_SEED:-1}" -out "$W/out" > "$W/check.log" 2>&1
rc=$?
nv=$(grep -c '^VIOLATION' "$W/check.log")
sigs=$(grep 'signature=' "$W/check.log" | sed 's/.*signature=\([^ ]*\).*/\1/' | head -8 | tr '\n' ' ')
inc=$(grep -c '^INCONCLUSIVE' "$W/check.log")
if [ "$nv" -gt 0 ]; then res "ALARM rc=$rc violations=$nv sigs=$sigs"; mkdir -p /tmp/benign_alarms/$NAME; cp "$W/check.log" /tmp/benign_alarms/$NAME/; cp -r "$W/out/replays" /tmp/benign_alarms/$NAME/ 2>/dev/null
else res "SILENT rc=$rc inconclusive=$inc"; fi
cleanup
exit 0
