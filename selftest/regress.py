#!/usr/bin/env python3
"""regress.py [PAR] [glob] : re-evaluate every kept seeded change (scratch-worktree procedure,
quick tier of the property it was written against) and print CAUGHT/MISSED per change."""
import glob, json, os, subprocess, sys
from concurrent.futures import ThreadPoolExecutor
par = int(sys.argv[1]) if len(sys.argv) > 1 else 4
pat = sys.argv[2] if len(sys.argv) > 2 else '*'
jobs = []
for d in sorted(glob.glob(f'/verif/seeded/{pat}/')):
    name = os.path.basename(d.rstrip('/'))
    if name.startswith('_') or not os.path.exists(d + 'demo_test.go.txt'):
        continue
    meta = json.load(open(d + 'meta.json'))
    if meta.get('tier', 'quick') == '-':
        continue
    jobs.append((name, d + 'patch.diff', d + 'demo_test.go.txt', meta['breaks_property']))
def run(j):
    p = subprocess.run(['/verif/selftest/eval_mutant.sh', *j, 'quick'], capture_output=True, text=True, env=dict(os.environ, SKIP_CONFIRM='1'))
    l = [x for x in p.stdout.splitlines() if x.startswith('RESULT')]
    return l[-1] if l else f'RESULT {j[0]} ?'
n = c = 0
with ThreadPoolExecutor(par) as ex:
    for line in ex.map(run, jobs):
        print(line[:200], flush=True)
        n += 1; c += ' CAUGHT ' in line
print(f'SUMMARY caught {c} of {n}')
