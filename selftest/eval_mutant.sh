#!/bin/bash
# eval_mutant.sh <name> <patch.diff> <demo_test.go> <property> [tier]
# Confirms a seeded change on a scratch worktree of /repo (outside /repo and /verif):
#   patch applies, repo builds, existing suite passes, demo fails with / passes without the patch;
# then runs the property's check against the mutated copy (harness built with an alternate
# modfile pointing at the scratch copy) and reports whether it raised a VIOLATION.
set -u
NAME="$1"; PATCH="$2"; DEMO="$3"; PROP="$4"; TIER="${5:-quick}"
export GOFLAGS=-mod=mod GOPROXY=off GOSUMDB=off GOTOOLCHAIN=local
export DBUS_SESSION_BUS_ADDRESS=unix:path=/nonexistent DISABLE_KWALLET=1
W=/tmp/mut/$NAME
rm -rf "$W"; git -C /repo worktree prune
mkdir -p /tmp/mut
git -C /repo worktree add --detach "$W/repo" HEAD -q || exit 9
cd "$W/repo"
res() { echo "RESULT $NAME prop=$PROP $*"; }
cleanup() { cd /; git -C /repo worktree remove --force "$W/repo" 2>/dev/null; rm -rf "$W/repo"; }
pkg=$(grep -m1 '^package ' "$DEMO" | awk '{print $2}')
case "$pkg" in
  keeper_test|keeper) DDIR=keeper;;
  types_test|types) DDIR=types;;
  *) DDIR=.;;
esac
DEMOF="$DDIR/zz_demo_${NAME//-/_}_test.go"
if [ -n "${SKIP_CONFIRM:-}" ]; then
  # regression of changes that were confirmed when they were kept: apply and go straight to the check
  if ! git apply "$PATCH" 2>"$W/apply.log" && ! git apply -3 "$PATCH" 2>>"$W/apply.log"; then res "INVALID patch-does-not-apply"; cleanup; exit 3; fi
else
# demo on clean tree must pass
cp "$DEMO" "$DEMOF"
if ! go test -vet=off -count=1 ./$DDIR/ > "$W/demo_clean.log" 2>&1; then res "INVALID demo-fails-on-clean-tree"; cleanup; exit 3; fi
rm -f "$DEMOF"
if ! git apply "$PATCH" 2>"$W/apply.log" && ! git apply -3 "$PATCH" 2>>"$W/apply.log"; then res "INVALID patch-does-not-apply"; cleanup; exit 3; fi
if ! go build ./... > "$W/build.log" 2>&1; then res "INVALID does-not-build"; cleanup; exit 3; fi
if ! go test -vet=off -count=1 ./... > "$W/suite.log" 2>&1; then res "INVALID existing-suite-fails"; cleanup; exit 3; fi
cp "$DEMO" "$DEMOF"
if go test -vet=off -count=1 ./$DDIR/ > "$W/demo_mut.log" 2>&1; then res "INVALID demo-passes-with-patch"; cleanup; exit 3; fi
rm -f "$DEMOF"
fi
# harness against the mutated copy
HD="${HARNESS_DIR:-/verif/harness}"
sed "s#=> /repo#=> $W/repo#" "$HD/go.mod" > "$W/harness.mod"
cp /repo/go.sum "$W/harness.sum"
cd "$HD"
if ! go build -tags verif -modfile="$W/harness.mod" -o "$W/chainmon" . > "$W/hbuild.log" 2>&1; then res "HARNESS-BUILD-FAILED"; cleanup; exit 4; fi
mkdir -p "$W/out"; cp /verif/known_findings.json "$W/out/" 2>/dev/null
SECONDS=0
"$W/chainmon" run -prop "$PROP" -tier "$TIER" -seed "${VERIF_SEED:-1}" ${EXTRA_ARGS:-} -out "$W/out" > "$W/check.log" 2>&1
rc=$?
nv=$(grep -c '^VIOLATION' "$W/check.log")
sigs=$(grep 'signature=' "$W/check.log" | sed 's/.*signature=\([^ ]*\).*/\1/' | head -4 | tr '\n' ' ')
if [ "$rc" = 1 ] && [ "$nv" -gt 0 ]; then res "CAUGHT rc=$rc violations=$nv secs=$SECONDS sigs=$sigs"; else res "MISSED rc=$rc secs=$SECONDS $(tail -1 "$W/check.log")"; fi
cleanup
exit 0
