#!/usr/bin/env python3
"""ingest_round.py <tag> <origin-text> <id> [<id>...]
For every /tmp/w<tag>-<id>/out/m<k>.diff: confirm + evaluate with eval_mutant.sh (4 in parallel)
against the property named in m<k>.md, then store valid ones as /verif/seeded/<tag>-<id>-m<k>/."""
import json, os, re, subprocess, sys, shutil
from concurrent.futures import ThreadPoolExecutor
tag, origin, ids = sys.argv[1], sys.argv[2], sys.argv[3:]
jobs = []
for i in ids:
    out = f'/tmp/w{tag}-{i}/out'
    for k in (1, 2, 3):
        d, demo, md = f'{out}/m{k}.diff', f'{out}/m{k}_demo_test.go', f'{out}/m{k}.md'
        if not (os.path.exists(d) and os.path.exists(demo) and os.path.exists(md)):
            continue
        first = open(md).readline()
        m = re.search(r'C\d\d', first)
        if not m:
            print('no property in', md); continue
        jobs.append((f'{tag}-{i}-m{k}', d, demo, md, m.group(0)))

def run(j):
    name, d, demo, md, prop = j
    p = subprocess.run(['/verif/selftest/eval_mutant.sh', name, d, demo, prop, 'quick'], capture_output=True, text=True)
    line = [l for l in p.stdout.splitlines() if l.startswith('RESULT')]
    return j, (line[-1] if line else 'RESULT ? ' + p.stdout[-300:] + p.stderr[-300:])

with ThreadPoolExecutor(int(os.environ.get('PAR', '4'))) as ex:
    for j, line in ex.map(run, jobs):
        name, d, demo, md, prop = j
        print(line, flush=True)
        if ' INVALID ' in line or 'HARNESS-BUILD-FAILED' in line or 'RESULT ?' in line:
            continue
        sd = f'/verif/seeded/{name}'
        os.makedirs(sd, exist_ok=True)
        shutil.copy(d, sd + '/patch.diff'); shutil.copy(demo, sd + '/demo_test.go.txt')
        caught = ' CAUGHT ' in line
        sigs = re.search(r'sigs=(.*)$', line)
        meta = {
            'breaks_property': prop, 'origin': origin,
            'needs_to_manifest': open(md).read().strip(),
            'confirmed': 'selftest/eval_mutant.sh on a scratch worktree of /repo HEAD: patch applies, go build ./... ok, existing suite passes, demo test fails with the patch and passes without it',
            'ran': f'selftest/eval_mutant.sh {name} seeded/{name}/patch.diff seeded/{name}/demo_test.go.txt {prop} quick',
            'first_pass': 'caught' if caught else 'missed',
            'detected_by': (sigs.group(1).strip() if (caught and sigs) else ''),
            'tier': 'quick',
        }
        json.dump(meta, open(sd + '/meta.json', 'w'), indent=1)
