#!/bin/bash
# check.sh <property-id> <quick|thorough>
# Rebuilds the monitor engine against /repo's current working tree, runs the workload
# of that property, prints VIOLATION / KNOWN-FINDING lines, writes evidence/<id>.json.
# exit 0 = held on everything observed; 1 = violation; 2 = build failure; 3 = inconclusive.
set -u
ID="$1"; TIER="${2:-quick}"
export GOFLAGS=-mod=mod GOPROXY=off GOSUMDB=off GOTOOLCHAIN=local
# the SDK's keyring dependency dials the D-Bus session bus in an init() and would auto-launch
# one dbus-daemon per process; a dead address makes that dial fail at once instead
export DBUS_SESSION_BUS_ADDRESS=unix:path=/nonexistent DISABLE_KWALLET=1
VROOT="$(cd "$(dirname "$0")" && pwd)"
cd "$VROOT/harness" || exit 2
cp /repo/go.sum go.sum
mkdir -p $VROOT/.build
BIN="$VROOT/.build/chainmon.$$"
trap 'rm -f "$BIN"' EXIT
if ! go build -tags verif -o "$BIN" . 2>$VROOT/.build/build.$$.log; then
  cat $VROOT/.build/build.$$.log
  echo "BUILD-FAILED property=$ID (the harness does not compile against /repo's working tree)"
  rm -f $VROOT/.build/build.$$.log
  exit 2
fi
rm -f $VROOT/.build/build.$$.log
"$BIN" run -prop "$ID" -tier "$TIER" -seed "${VERIF_SEED:-1}" -out "$VROOT"
rc=$?
if [ "$ID" = "C20" ] && [ "$TIER" = "thorough" ]; then
  # same engine under the Go race detector: 16 replicas, one app instance each, run concurrently
  RBIN="$VROOT/.build/chainmon.race.$$"; RLOG="$VROOT/.build/race.$$"
  if go build -race -tags verif -o "$RBIN" . 2>/dev/null; then
    cp $VROOT/evidence/C20.json "$VROOT/.build/C20.ev.$$"
    GORACE="halt_on_error=0 log_path=$RLOG" "$RBIN" run -prop C20 -tier quick -seed "${VERIF_SEED:-1}" -out $VROOT/.build/raceout.$$ >/dev/null 2>&1
    rrc=$?
    cp "$VROOT/.build/C20.ev.$$" $VROOT/evidence/C20.json
    "$BIN" racereport -logs "$RLOG" -evidence $VROOT/evidence/C20.json -run-exit $rrc || rc=1
    mkdir -p "$VROOT/replays"; for f in "$RLOG"*; do [ -f "$f" ] && mv "$f" "$VROOT/replays/" ; done
    rm -rf "$RBIN" $VROOT/.build/raceout.$$ "$VROOT/.build/C20.ev.$$"
  else
    echo "INCONCLUSIVE property=C20 the -race build failed"; [ $rc = 0 ] && rc=3
  fi
fi
exit $rc
