#!/bin/bash
# check.sh <property-id> <quick|thorough>
# Rebuilds the monitor engine against /repo's current working tree, runs the workload
# of that property, prints VIOLATION / KNOWN-FINDING lines, writes evidence/<id>.json.
# exit 0 = held on everything observed; 1 = violation; 2 = build failure; 3 = inconclusive.
set -u
ID="$1"; TIER="${2:-quick}"
export GOFLAGS=-mod=mod GOPROXY=off GOSUMDB=off GOTOOLCHAIN=local
# the SDK's keyring dependency dials the D-Bus session bus in an init() and would auto-launch
# one dbus-daemon per process; a dead address makes that dial fail at once instead
export DBUS_SESSION_BUS_ADDRESS=unix:path=/nonexistent DISABLE_KWALLET=1
cd /verif/harness || exit 2
cp /repo/go.sum go.sum
mkdir -p /verif/.build
BIN="/verif/.build/chainmon.$$"
trap 'rm -f "$BIN"' EXIT
if ! go build -tags verif -o "$BIN" . 2>/verif/.build/build.$$.log; then
  cat /verif/.build/build.$$.log
  echo "BUILD-FAILED property=$ID (the harness does not compile against /repo's working tree)"
  rm -f /verif/.build/build.$$.log
  exit 2
fi
rm -f /verif/.build/build.$$.log
"$BIN" run -prop "$ID" -tier "$TIER" -seed "${VERIF_SEED:-1}" -out /verif
