package main

// C20: replay differential. A recorded history is re-executed in fresh application
// instances (and, for a sample, in a child process); the per-step digests of the whole
// module store plus all observed balances must be identical. Panics are judged by
// stepC20 (mon_step.go); data races by the -race build of the thorough tier (check.sh).

import (
	"bufio"
	"encoding/json"
	"fmt"
	"io/ioutil"
	"os"
	"os/exec"
	"strings"
)

// replayDigests re-executes h on a fresh app and returns the digests after every step.
func replayDigests(h *History) (digests []string, harnessPanic string) {
	defer func() {
		if r := recover(); r != nil {
			harnessPanic = fmt.Sprint(r)
		}
	}()
	a := NewApp()
	mon := NewMon(NewStats())
	r := Replay(a, h, mon)
	return r.digests, ""
}

func firstDiff(a, b []string) int {
	n := len(a)
	if len(b) < n {
		n = len(b)
	}
	for i := 0; i < n; i++ {
		if a[i] != b[i] {
			return i
		}
	}
	if len(a) != len(b) {
		return n
	}
	return -1
}

// checkDeterminism replays the history of r k times (fresh instances) and optionally in
// a child process, reporting divergence under C20.
func checkDeterminism(m *Mon, r *Run, k int, child bool) {
	h := r.hist
	m.run = r
	sc := &StepCtx{Idx: len(h.Steps) - 1, Step: &Step{Kind: "replay", Desc: "replay differential"}, Res: &StepResult{OK: true}, run: r}
	for i := 0; i < k; i++ {
		m.eval("C20")
		d, hp := replayDigests(h)
		if hp != "" {
			m.stats.Hits["harness/panic"]++
			continue
		}
		m.hit("C20", "replay-identical", fmt.Sprintf("steps%d", minInt(len(d)/50, 5)))
		if at := firstDiff(r.digests, d); at >= 0 {
			desc := ""
			if at < len(h.Steps) {
				desc = h.Steps[at].Desc
			}
			sc.Idx = at
			m.fail(sc, "C20", "replay-identical", stepKindOf(h, at), "replica %d of history %s diverges at step %d (%s): state digest %.16s vs %.16s", i+1, h.Name, at, desc, pick2(r.digests, at), pick2(d, at))
			return
		}
	}
	if child {
		m.eval("C20")
		d, err := childDigests(h)
		if err != nil {
			m.stats.Hits["harness/child-error"]++
			return
		}
		m.hit("C20", "replay-identical-across-processes", "")
		if at := firstDiff(r.digests, d); at >= 0 {
			sc.Idx = at
			m.fail(sc, "C20", "replay-identical-across-processes", stepKindOf(h, at), "child process replay of %s diverges at step %d", h.Name, at)
		}
	}
}

func stepKindOf(h *History, i int) string {
	if i < 0 || i >= len(h.Steps) {
		return "length"
	}
	st := h.Steps[i]
	if st.Kind == "msg" {
		return st.MsgType
	}
	return st.Kind
}

func pick2(d []string, i int) string {
	if i < len(d) {
		return d[i]
	}
	return "<missing>"
}

func childDigests(h *History) ([]string, error) {
	f, err := ioutil.TempFile("", "chainmon-hist-*.json")
	if err != nil {
		return nil, err
	}
	defer os.Remove(f.Name())
	f.Write(mustJSON(map[string]interface{}{"history": h}))
	f.Close()
	exe, err := os.Executable()
	if err != nil {
		return nil, err
	}
	out, err := exec.Command(exe, "digest", f.Name()).Output()
	if err != nil {
		return nil, err
	}
	var d []string
	sc := bufio.NewScanner(strings.NewReader(string(out)))
	sc.Buffer(make([]byte, 1<<20), 1<<26)
	for sc.Scan() {
		if strings.HasPrefix(sc.Text(), "D ") {
			d = append(d, strings.TrimPrefix(sc.Text(), "D "))
		}
	}
	return d, nil
}

func cmdDigest(args []string) {
	b, err := ioutil.ReadFile(args[0])
	must(err)
	var doc struct {
		History History `json:"history"`
	}
	must(json.Unmarshal(b, &doc))
	d, hp := replayDigests(&doc.History)
	if hp != "" {
		fmt.Println("HARNESS-PANIC", hp)
		os.Exit(3)
	}
	for _, x := range d {
		fmt.Println("D", x)
	}
}
