package main

// C20: replay differential. A recorded history is re-executed in fresh application
// instances (and, for a sample, in a child process); the per-step digests of the whole
// module store plus all observed balances must be identical. Panics are judged by
// stepC20 (mon_step.go); data races by the -race build of the thorough tier (check.sh).

import (
	"time"

	sdk "github.com/cosmos/cosmos-sdk/types"

	"bufio"
	"encoding/json"
	"fmt"
	"io/ioutil"
	"os"
	"os/exec"
	"strings"
)

// replayDigests re-executes h on a fresh app and returns the digests after every step.
func replayDigests(h *History) (digests []string, harnessPanic string) {
	defer func() {
		if r := recover(); r != nil {
			harnessPanic = fmt.Sprint(r)
		}
	}()
	a := NewApp()
	a.noNodeRestart = true // a commit-mode history restarted its node now and then; the replica never does
	mon := NewMon(NewStats())
	r := Replay(a, h, mon)
	return r.digests, ""
}

func firstDiff(a, b []string) int {
	n := len(a)
	if len(b) < n {
		n = len(b)
	}
	for i := 0; i < n; i++ {
		if a[i] != b[i] {
			return i
		}
	}
	if len(a) != len(b) {
		return n
	}
	return -1
}

// checkDeterminism replays the history of r k times (fresh instances) and optionally in
// a child process, reporting divergence under C20.
func checkDeterminism(m *Mon, r *Run, k int, child bool) {
	h := r.hist
	m.run = r
	sc := &StepCtx{Idx: len(h.Steps) - 1, Step: &Step{Kind: "replay", Desc: "replay differential"}, Res: &StepResult{OK: true}, run: r}
	for i := 0; i < k; i++ {
		if expired() {
			return // the watchdog has fired: steps are no-ops from now on, nothing can be compared
		}
		m.eval("C20")
		d, hp := replayDigests(h)
		if hp != "" {
			m.stats.Hits["harness/panic"]++
			continue
		}
		if expired() {
			return // the replica was cut short by the watchdog: inconclusive, not a divergence
		}
		m.hit("C20", "replay-identical", fmt.Sprintf("steps%d", minInt(len(d)/50, 5)))
		if at := firstDiff(r.digests, d); at >= 0 {
			desc := ""
			if at < len(h.Steps) {
				desc = h.Steps[at].Desc
			}
			sc.Idx = at
			m.fail(sc, "C20", "replay-identical", stepKindOf(h, at), "replica %d of history %s diverges at step %d (%s): state digest %.16s vs %.16s", i+1, h.Name, at, desc, pick2(r.digests, at), pick2(d, at))
			return
		}
	}
	if child && !expired() {
		m.eval("C20")
		d, err := childDigests(h)
		if err != nil {
			m.stats.Hits["harness/child-error"]++
			return
		}
		if expired() {
			return
		}
		m.hit("C20", "replay-identical-across-processes", "")
		if at := firstDiff(r.digests, d); at >= 0 {
			sc.Idx = at
			m.fail(sc, "C20", "replay-identical-across-processes", stepKindOf(h, at), "child process replay of %s diverges at step %d", h.Name, at)
		}
	}
}

func stepKindOf(h *History, i int) string {
	if i < 0 || i >= len(h.Steps) {
		return "length"
	}
	st := h.Steps[i]
	if st.Kind == "msg" {
		return st.MsgType
	}
	return st.Kind
}

func pick2(d []string, i int) string {
	if i < len(d) {
		return d[i]
	}
	return "<missing>"
}

func childDigests(h *History) ([]string, error) {
	f, err := ioutil.TempFile("", "chainmon-hist-*.json")
	if err != nil {
		return nil, err
	}
	defer os.Remove(f.Name())
	f.Write(mustJSON(map[string]interface{}{"history": h}))
	f.Close()
	exe, err := os.Executable()
	if err != nil {
		return nil, err
	}
	out, err := exec.Command(exe, "digest", f.Name()).Output()
	if err != nil {
		return nil, err
	}
	var d []string
	sc := bufio.NewScanner(strings.NewReader(string(out)))
	sc.Buffer(make([]byte, 1<<20), 1<<26)
	for sc.Scan() {
		if strings.HasPrefix(sc.Text(), "D ") {
			d = append(d, strings.TrimPrefix(sc.Text(), "D "))
		}
	}
	return d, nil
}

func cmdDigest(args []string) {
	b, err := ioutil.ReadFile(args[0])
	must(err)
	var doc struct {
		History History `json:"history"`
	}
	must(json.Unmarshal(b, &doc))
	d, hp := replayDigests(&doc.History)
	if hp != "" {
		fmt.Println("HARNESS-PANIC", hp)
		os.Exit(3)
	}
	for _, x := range d {
		fmt.Println("D", x)
	}
}

// wallClockProbe: block processing must depend on block time only, never on the wall clock.
// A short history whose promotion windows meet at an instant a few seconds in the wall-clock
// future is executed before that instant and replayed after it; the digests must agree.
func wallClockProbe(a *App, mon *Mon, seed int64) {
	edge := time.Now().UTC().Truncate(time.Second).Add(3 * time.Second)
	p := baseParams()
	p.MinDepositMultiple = 1
	r := NewRun(a, "wall-clock-probe", seed, p, mon)
	act := MakeActors()
	act.FundAll(r, 1_000_000_000, 1_000_000, 3)
	r.SetStartTime(edge.Add(-30 * time.Minute))
	r.Begin()
	s := &Sc{r: r, A: act, p: p}
	pricing := fmt.Sprintf(`{"price":"100%s","promotions_by_time":[{"start_time":"%s","end_time":"%s","discount":"0.5"},{"start_time":"%s","end_time":"%s","discount":"0.1"}]}`,
		denom, edge.Add(-time.Hour).Format(time.RFC3339), edge.Format(time.RFC3339), edge.Format(time.RFC3339), edge.Add(time.Hour).Format(time.RFC3339))
	p1 := act.SignProv[0]
	s.define("svc")
	s.bind("svc", p1, act.Owners[0], 100000, pricing, 1)
	id := s.call("svc", []sdk.AccAddress{p1}, act.Consumers[0], 1000, 1, false, true, 1, -1)
	for b := 0; b < 8; b++ {
		for _, rid := range s.pendingOf(id, p1) {
			s.respond(rid, p1, 0)
		}
		switch b {
		case 2:
			r.Block(40 * time.Minute) // chain time jumps into the second window
		case 5:
			r.Block(2 * time.Hour) // and past both
		default:
			s.block()
		}
	}
	s.done()
	if d := time.Until(edge.Add(1500 * time.Millisecond)); d > 0 {
		time.Sleep(d)
	}
	mon.eval("C20")
	d, hp := replayDigests(r.hist)
	if hp != "" {
		mon.stats.Hits["harness/panic"]++
		return
	}
	mon.run = r
	mon.hit("C20", "replay-identical-across-wall-clock", "")
	if at := firstDiff(r.digests, d); at >= 0 {
		sc := &StepCtx{Idx: at, Step: &Step{Kind: "replay"}, Res: &StepResult{OK: true}, run: r}
		mon.fail(sc, "C20", "replay-identical-across-wall-clock", stepKindOf(r.hist, at), "the same history executed before and after the wall-clock instant %s (a promotion boundary in its pricing) diverges at step %d: block processing reads the wall clock", edge.Format(time.RFC3339), at)
	}
}
