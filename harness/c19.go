package main

// C19: scenario monitor run on a throw-away branch of sampled reachable states:
// zero-height preparation returns all escrow, export validates, survives JSON,
// import -> export is the identity, imported indexes are rebuilt.

import (
	"unicode/utf8"

	"bytes"
	"fmt"
	"math/big"
	"runtime/debug"
	"strings"

	sdk "github.com/cosmos/cosmos-sdk/types"

	service "github.com/irismod/service"
	"github.com/irismod/service/types"
)

type c19Mon struct {
	m     *Mon
	every int
	spare *App // fresh chain used as import target
}

func attachC19(m *Mon, every int) {
	c := &c19Mon{m: m, every: every}
	m.c19 = c
	m.extra = append(m.extra, func(sc *StepCtx) {
		if sc.Idx >= 0 && (sc.Idx+1)%everyFor(sc, c.every, 3) == 0 {
			c.scenario(sc)
		}
	})
	m.atFinish = append(m.atFinish, func(r *Run) {
		c.scenario(&StepCtx{Idx: len(r.hist.Steps) - 1, Step: &Step{Kind: "end", Desc: "end of history"}, Res: &StepResult{OK: true}, Pre: r.pre, Post: r.pre, run: r})
	})
}

func guard(f func()) (pan string, site string) {
	defer func() {
		if r := recover(); r != nil {
			pan = fmt.Sprint(r)
			site = panicSite(string(debug.Stack()))
		}
	}()
	f()
	return
}

func (c *c19Mon) scenario(sc *StepCtx) {
	m := c.m
	w := sc.run.w
	k := w.a.k
	s0 := sc.Post
	m.eval("C19")
	ctx, _ := w.curCtx().CacheContext()
	ctx = ctx.WithEventManager(sdk.NewEventManager())

	nPend, nEarn, nCtx, nWa, odd := len(s0.ActiveID), 0, len(s0.Contexts), len(s0.Withdraw), 0
	for _, v := range s0.Earned {
		if v.IsPositive() {
			nEarn++
		}
	}
	for _, b := range s0.Bindings {
		if len(b.Provider) != 20 {
			odd++
		}
	}
	sit := fmt.Sprintf("pend%d/earn%d/ctx%d/wa%d/odd%d/bind%d", minInt(nPend, 3), minInt(nEarn, 3), minInt(nCtx, 3), minInt(nWa, 2), minInt(odd, 2), minInt(len(s0.Bindings), 4))

	// 0. plain export, without the zero-height preparation (what `export` at a height does): the
	// genesis is either refused by validation (the unchanged tree refuses every context that is
	// not paused with a completed batch) or, if it is accepted, importing it must give a store
	// in which the standing invariants of the queues, indexes and records hold
	c.plainExport(sc)

	// 1. zero-height preparation
	if pan, site := guard(func() { service.PrepForZeroHeightGenesis(ctx, k) }); pan != "" {
		m.fail(sc, "C19", "prep-completes", site+":"+firstWords(pan, 5), "zero-height preparation panicked: %s", pan)
		return
	}
	s1 := w.SnapOf(ctx)
	want := map[string]*big.Int{}
	add := func(a string, v *big.Int) {
		if want[a] == nil {
			want[a] = new(big.Int)
		}
		want[a].Add(want[a], v)
	}
	for id := range s0.ActiveID {
		r, ok := s0.Requests[id]
		if !ok {
			continue
		}
		if rc, ok := s0.Contexts[hexs(r.RequestContextId)]; ok {
			add(hexs(rc.Consumer), bi(coinsAmt(r.ServiceFee)))
		}
	}
	for p, v := range s0.Earned {
		add(p, bi(v))
	}
	m.hit("C19", "prep-returns-escrow", sit)
	for a := range s0.Bal {
		if a == w.addrOf("escrow") {
			continue
		}
		wv := want[a]
		if wv == nil {
			wv = new(big.Int)
		}
		if d := delta(s0, s1, a); !eqInt(d, wv) {
			kind := "other-account"
			if _, ok := want[a]; ok {
				kind = "creditor"
			}
			m.fail(sc, "C19", "prep-returns-escrow", kind, "zero-height preparation: %s (%.10s.., %d bytes) received %s, is owed %s (pending fees + earnings)", w.tracked[a], a, len(a)/2, d, wv)
		}
	}
	for a := range want {
		if _, tracked := s0.Bal[a]; !tracked && want[a].Sign() > 0 {
			m.fail(sc, "C19", "prep-returns-escrow", "untracked-creditor", "creditor %s is not observed by the harness", a)
		}
	}
	if esc := s1.Bal[w.addrOf("escrow")]; !esc.IsZero() {
		m.fail(sc, "C19", "prep-empties-escrow", "", "escrow holds %s after zero-height preparation", esc)
	}
	// the preparation rewrites every context record: identity, terms and the batch counter
	// must come through unchanged (C09 / C10 depend on them)
	for id, a := range s0.Contexts {
		b, ok := s1.Contexts[id]
		if !ok {
			if !abandonedAtRestart(a) {
				m.fail(sc, "C09", "removed-only-at-block-end", "zero-height-prep", "context %.16s removed by the zero-height preparation", id)
			}
			continue
		}
		m.hit("C09", "survives-zero-height-prep", fmt.Sprintf("from-%s", a.State))
		if a.ServiceName != b.ServiceName || !bytes.Equal(a.Consumer, b.Consumer) || a.Input != b.Input || a.SuperMode != b.SuperMode || a.Repeated != b.Repeated || a.ModuleName != b.ModuleName {
			m.fail(sc, "C09", "immutable-fields", "zero-height-prep", "context %.16s changed an immutable field in the zero-height preparation (repeated %v->%v, super %v->%v, module %q->%q)", id, a.Repeated, b.Repeated, a.SuperMode, b.SuperMode, a.ModuleName, b.ModuleName)
		}
		if !termsEqual(a, b) {
			m.fail(sc, "C09", "terms-change-only-by-update", "zero-height-prep", "context %.16s terms changed in the zero-height preparation (providers %d->%d)", id, len(a.Providers), len(b.Providers))
		}
		if a.BatchCounter != b.BatchCounter {
			m.fail(sc, "C09", "counter-step", "zero-height-prep", "context %.16s batch counter %d -> %d in the zero-height preparation", id, a.BatchCounter, b.BatchCounter)
			if b.BatchCounter < a.BatchCounter {
				m.fail(sc, "C10", "total-respected", "counter-reset@zero-height-prep", "context %.16s batch counter %d -> %d in the zero-height preparation: issued batches no longer count against its total", id, a.BatchCounter, b.BatchCounter)
			}
		}
	}
	// deposits are not part of the preparation (C03)
	if d := delta(s0, s1, w.addrOf("deposits")); d.Sign() != 0 || !s1.Bal[w.addrOf("deposits")].Equal(s1.sumDeposits()) {
		m.fail(sc, "C03", "custody", "zero-height-prep", "after the zero-height preparation the deposit account holds %s, bindings record %s", s1.Bal[w.addrOf("deposits")], s1.sumDeposits())
	}
	for id, rc := range s1.Contexts {
		if rc.State != types.PAUSED || rc.BatchState != types.BATCHCOMPLETED {
			m.fail(sc, "C19", "prep-pauses-contexts", "", "context %.16s after preparation: state %s, batch %s, counts %d/%d", id, rc.State, rc.BatchState, rc.BatchRequestCount, rc.BatchResponseCount)
		}
	}

	// 2. export, validate
	var gs *types.GenesisState
	if pan, site := guard(func() { gs = service.ExportGenesis(ctx, k) }); pan != "" {
		m.fail(sc, "C19", "export-completes", site, "export panicked: %s", pan)
		return
	}
	m.hit("C19", "export-validates", sit)
	if err := types.ValidateGenesis(*gs); err != nil {
		m.fail(sc, "C19", "export-validates", valClass(err.Error()), "exported genesis fails validation: %v", err)
	}
	if len(gs.Definitions) != len(s1.Defs) || len(gs.Bindings) != len(s1.Bindings) || len(gs.WithdrawAddresses) != len(s1.Withdraw) || len(gs.RequestContexts) != len(s1.Contexts) {
		m.fail(sc, "C19", "export-complete", "", "export holds %d/%d/%d/%d definitions/bindings/withdraw addresses/contexts, store has %d/%d/%d/%d", len(gs.Definitions), len(gs.Bindings), len(gs.WithdrawAddresses), len(gs.RequestContexts), len(s1.Defs), len(s1.Bindings), len(s1.Withdraw), len(s1.Contexts))
	}

	// 2b. a genesis the unchanged tree refuses: the same export with one binding's pricing given a
	// discount that is not below one (once as an available, once as a disabled binding). If
	// validation and import accept it, price terms the statements exclude are in the store.
	c.badPricingGenesis(sc, gs)

	// 3. JSON round trip through the application's JSON codec
	cdc := w.a.app.AppCodec()
	var bz []byte
	if pan, _ := guard(func() { bz = cdc.MustMarshalJSON(gs) }); pan != "" {
		m.fail(sc, "C19", "json-write", "", "exported genesis cannot be written as JSON: %s", pan)
		return
	}
	imp := gs
	var gs2 types.GenesisState
	m.hit("C19", "json-roundtrip", sit)
	if err := cdc.UnmarshalJSON(bz, &gs2); err != nil {
		cls := jsonClass(err.Error())
		m.fail(sc, "C19", "json-roundtrip", cls, "exported genesis JSON cannot be read back: %v", err)
	} else {
		bz2, _ := cdc.MarshalJSON(&gs2)
		if !bytes.Equal(bz, bz2) {
			cls := "differs"
			for _, d := range gs.Definitions {
				if !utf8.ValidString(d.Description) || !utf8.ValidString(d.AuthorDescription) {
					cls = "invalid-utf8-in-description"
				}
			}
			m.fail(sc, "C19", "json-roundtrip", cls, "genesis JSON differs after read-back (%s)", cls)
		} else {
			imp = &gs2
			m.hit("C19", "json-roundtrip-ok", "")
		}
	}

	// 3b. the same through the application module (module.go): export as JSON, validate the
	// JSON, and - when it can be read back - import it below through the module as well
	am := service.NewAppModule(cdc, k, w.a.app.AccountKeeper, w.a.app.BankKeeper)
	var modJSON []byte
	if pan, _ := guard(func() { modJSON = am.ExportGenesis(ctx, cdc) }); pan != "" {
		m.fail(sc, "C19", "export-completes", "module", "AppModule.ExportGenesis panicked: %s", pan)
	} else {
		m.hit("C19", "module-export", "")
		if !bytes.Equal(compactJSON(modJSON), compactJSON(bz)) {
			m.fail(sc, "C19", "import-export-identity", "module-export-differs", "AppModule.ExportGenesis does not write the genesis that ExportGenesis returns")
		}
		if imp == &gs2 {
			if err := am.ValidateGenesis(cdc, nil, modJSON); err != nil {
				m.fail(sc, "C19", "export-validates", "module:"+valClass(err.Error()), "AppModule.ValidateGenesis rejects the exported genesis: %v", err)
			}
		}
	}

	// 4. import into a fresh chain, export again
	if c.spare == nil {
		c.spare = NewApp()
	}
	w2 := &World{a: c.spare, height: w.height, now: w.now, tracked: map[string]string{}, actors: map[string]sdk.AccAddress{}}
	ctx2, _ := c.spare.baseCtx.CacheContext()
	w2.ctx = ctx2
	importer := func() { service.InitGenesis(ctx2, c.spare.k, *imp) }
	if imp == &gs2 && modJSON != nil && sc.Idx%2 == 0 {
		am2 := service.NewAppModule(cdc, c.spare.k, c.spare.app.AccountKeeper, c.spare.app.BankKeeper)
		importer = func() { am2.InitGenesis(ctx2, cdc, modJSON) }
		m.hit("C19", "module-import", "")
	}
	if pan, site := guard(importer); pan != "" {
		m.fail(sc, "C19", "import-completes", site+":"+valClass(pan), "importing the exported genesis panicked: %s", pan)
		return
	}
	var gs3 *types.GenesisState
	if pan, _ := guard(func() { gs3 = service.ExportGenesis(ctx2, c.spare.k) }); pan != "" {
		m.fail(sc, "C19", "export-completes", "second", "second export panicked: %s", pan)
		return
	}
	m.hit("C19", "import-export-identity", sit)
	a1, e1 := cdc.MarshalJSON(imp)
	a2, e2 := cdc.MarshalJSON(gs3)
	if e1 != nil || e2 != nil || !bytes.Equal(a1, a2) {
		m.fail(sc, "C19", "import-export-identity", genesisDiff(imp, gs3), "genesis exported after import differs from the imported one (%s)", genesisDiff(imp, gs3))
	}
	// imported bindings' price terms and ownership indexes are rebuilt: run the C15 index
	// checker on the fresh chain's raw store, reporting under C19
	s3 := w2.SnapOf(ctx2.WithBlockHeight(w.height))
	sub := &Mon{stats: NewStats(), run: sc.run, seenSig: map[string]bool{}, broken: map[string]bool{}}
	sub.stateC15(&StepCtx{Idx: sc.Idx, Step: sc.Step, Res: sc.Res, Pre: s3, Post: s3, run: sc.run}, s3)
	for _, v := range sub.stats.Violations {
		m.fail(sc, "C19", "import-rebuilds-indexes", v.Rule, "after import: %s", v.Msg)
	}
	if len(s3.Problems) > 0 {
		m.fail(sc, "C19", "import-rebuilds-indexes", "undecodable", "imported store: %v", s3.Problems)
	}
	if len(s3.Bindings) != len(s1.Bindings) || len(s3.Contexts) != len(s1.Contexts) || len(s3.Defs) != len(s1.Defs) || len(s3.Withdraw) != len(s1.Withdraw) {
		m.fail(sc, "C19", "import-complete", "", "imported store holds %d/%d/%d/%d definitions/bindings/withdraw addresses/contexts, exported state had %d/%d/%d/%d", len(s3.Defs), len(s3.Bindings), len(s3.Withdraw), len(s3.Contexts), len(s1.Defs), len(s1.Bindings), len(s1.Withdraw), len(s1.Contexts))
	}
	for o, a := range s1.Withdraw {
		if s3.Withdraw[o] != a {
			m.fail(sc, "C19", "import-complete", "withdraw-address", "withdrawal address of %.8s is %.8s after import, was %.8s", o, s3.Withdraw[o], a)
		}
	}
}

func (c *c19Mon) plainExport(sc *StepCtx) {
	m := c.m
	w := sc.run.w
	ctx, _ := w.curCtx().CacheContext()
	var gs *types.GenesisState
	if pan, _ := guard(func() { gs = service.ExportGenesis(ctx, w.a.k) }); pan != "" {
		return // judged by the main scenario
	}
	before, _ := w.a.app.AppCodec().MarshalJSON(gs)
	accepted := types.ValidateGenesis(*gs) == nil
	if after, _ := w.a.app.AppCodec().MarshalJSON(gs); !bytes.Equal(before, after) {
		m.fail(sc, "C19", "export-validates", "validation-edits-genesis", "ValidateGenesis changed the genesis it was given")
		m.fail(sc, "C09", "completed-is-final", "validation-edits-genesis", "ValidateGenesis changed the genesis it was given (a context's state is not validation's to set)")
	}
	nonPaused := 0
	for _, rc := range sc.Post.Contexts {
		if rc.State != types.PAUSED {
			nonPaused++
		}
	}
	m.hit("C19", "plain-export", fmt.Sprintf("accepted%v/nonpaused%d", accepted, minInt(nonPaused, 2)))
	if !accepted {
		return
	}
	if c.spare == nil {
		c.spare = NewApp()
	}
	w2 := &World{a: c.spare, height: w.height, now: w.now, tracked: map[string]string{}, actors: map[string]sdk.AccAddress{}}
	ctx2, _ := c.spare.baseCtx.CacheContext()
	w2.ctx = ctx2
	if pan, _ := guard(func() { service.InitGenesis(ctx2, c.spare.k, *gs) }); pan != "" {
		return // an import that validation accepted and InitGenesis refuses: judged by the main scenario's rules
	}
	s := w2.SnapOf(ctx2.WithBlockHeight(w.height))
	sub := &Mon{stats: NewStats(), run: sc.run, seenSig: map[string]bool{}, broken: map[string]bool{}}
	ssc := &StepCtx{Idx: sc.Idx, Step: &Step{Kind: "import", Desc: "import of a plain (unprepared) export that validation accepted"}, Res: sc.Res, Pre: s, Post: s, run: sc.run}
	sub.stateC11(ssc, s)
	sub.stateC12(ssc, s)
	sub.stateC15(ssc, s)
	sub.stateC16(ssc, s)
	for _, v := range sub.stats.Violations {
		m.fail(sc, v.Prop, v.Rule, "plain-export-import", "a genesis exported without preparation passes validation, but the imported state breaks an invariant: %s", v.Msg)
	}
	for id, a := range sc.Post.Contexts {
		b, ok := s.Contexts[id]
		if !ok {
			continue
		}
		if a.State == types.COMPLETED && b.State != types.COMPLETED {
			m.fail(sc, "C09", "completed-is-final", "plain-export-import", "killed context %.16s is %s after the import of a plain export", id, b.State)
		}
		if b.State == types.COMPLETED && len(s.ExpQ[id]) == 0 && len(sc.Post.ExpQ[id]) > 0 {
			// its in-flight batch can never expire on the new chain: the context can never be removed
			m.fail(sc, "C16", "finished-context-removed", "plain-export-import", "killed context %.16s, whose batch was in flight at the export, is imported with nothing scheduled: it is never removed", id)
		}
	}
}

func (c *c19Mon) badPricingGenesis(sc *StepCtx, gs *types.GenesisState) {
	m := c.m
	w := sc.run.w
	if len(gs.Bindings) == 0 {
		return
	}
	for variant := 0; variant < 3; variant++ {
		bad := *gs
		bad.Bindings = append([]types.ServiceBinding(nil), gs.Bindings...)
		b := bad.Bindings[len(bad.Bindings)-1]
		b.Pricing = fmt.Sprintf(`{"price":"100%s","promotions_by_volume":[{"volume":1,"discount":"1.5"}]}`, denom)
		b.Available = variant == 0
		if variant == 2 {
			// a second member that differs from "price" only in case: the schema refuses it, a
			// lenient decoder would let it replace the price
			b.Pricing = fmt.Sprintf(`{"price":"1000%s","PRICE":"1%s"}`, denom, denom)
		}
		if !b.Available {
			b.DisabledTime = w.now
		}
		bad.Bindings[len(bad.Bindings)-1] = b
		m.hit("C19", "refused-genesis", fmt.Sprintf("bad-discount/avail%v", b.Available))
		if types.ValidateGenesis(bad) != nil {
			continue
		}
		if c.spare == nil {
			c.spare = NewApp()
		}
		ctx2, _ := c.spare.baseCtx.CacheContext()
		if pan, _ := guard(func() { service.InitGenesis(ctx2, c.spare.k, bad) }); pan != "" {
			continue
		}
		if variant == 2 {
			m.fail(sc, "C14", "min-deposit", "genesis-accepts-ambiguous-pricing", "a genesis whose binding publishes the pricing %s passes validation and is imported", b.Pricing)
			m.fail(sc, "C15", "pricing-record", "genesis-accepts-ambiguous-pricing", "a genesis whose binding publishes the pricing %s passes validation and is imported", b.Pricing)
			continue
		}
		m.fail(sc, "C07", "discount-in-range", fmt.Sprintf("genesis-accepts/avail%v", b.Available), "a genesis whose binding (%s, available=%v) publishes a volume discount of 1.5 passes validation and is imported: every discount lies strictly between 0 and 1", b.ServiceName, b.Available)
		m.fail(sc, "C15", "binding-valid", fmt.Sprintf("genesis-accepts/avail%v", b.Available), "a genesis whose binding (%s, available=%v) publishes a volume discount of 1.5 passes validation and is imported", b.ServiceName, b.Available)
	}
}

func valClass(s string) string {
	switch {
	case strings.Contains(s, "encoding/hex") || strings.Contains(s, "invalid byte"):
		return "hex-decoding"
	case strings.Contains(s, "bech32") || strings.Contains(s, "Incorrect address length") || strings.Contains(s, "address length"):
		return "address-length"
	case strings.Contains(s, "request context state"):
		return "context-state"
	}
	return firstWords(s, 4)
}

func jsonClass(s string) string {
	switch {
	case strings.Contains(s, "unknown value") && strings.Contains(s, "enum"):
		return "enum-name"
	case strings.Contains(s, "ncorrect address length") || strings.Contains(s, "address length"):
		return "address-length"
	}
	return firstWords(s, 4)
}

func genesisDiff(a, b *types.GenesisState) string {
	var parts []string
	if !sameProto(&a.Params, &b.Params) {
		parts = append(parts, "params")
	}
	if len(a.Definitions) != len(b.Definitions) {
		parts = append(parts, "definitions")
	}
	if len(a.Bindings) != len(b.Bindings) {
		parts = append(parts, "bindings")
	} else {
		for i := range a.Bindings {
			if !sameProto(&a.Bindings[i], &b.Bindings[i]) {
				parts = append(parts, "binding-record")
				break
			}
		}
	}
	if len(a.WithdrawAddresses) != len(b.WithdrawAddresses) {
		parts = append(parts, "withdraw-addresses")
	} else {
		for k, v := range a.WithdrawAddresses {
			if !bytes.Equal(b.WithdrawAddresses[k], v) {
				parts = append(parts, "withdraw-address-value")
				break
			}
		}
	}
	if len(a.RequestContexts) != len(b.RequestContexts) {
		parts = append(parts, "contexts")
	} else {
		for k, v := range a.RequestContexts {
			o, ok := b.RequestContexts[k]
			if !ok || !sameProto(v, o) {
				parts = append(parts, "context-record")
				break
			}
		}
	}
	if len(parts) == 0 {
		return "json-only"
	}
	return strings.Join(parts, "+")
}
