package main

// Per-history ledgers: one entry per request ever seen (C02/C08), one timeline per
// context (C09/C10/C12). Updated after every step before the step oracles run.

import (
	"fmt"

	sdk "github.com/cosmos/cosmos-sdk/types"

	"github.com/irismod/service/types"
)

// classification of the step, computed once
type stepInfo struct {
	respond    *types.MsgRespondService // accepted respond
	respReq    types.CompactRequest
	respCtx    types.RequestContext
	respGood   bool                  // output absent or well-formed
	modSvcCall *types.MsgCallService // accepted call of the module service
	withdraw   *types.MsgWithdrawEarnedFees
}

func (sc *StepCtx) info() stepInfo {
	var si stepInfo
	if !sc.IsMsg() || !sc.Res.OK {
		return si
	}
	switch msg := sc.Msg.(type) {
	case *types.MsgRespondService:
		si.respond = msg
		si.respReq = sc.Pre.Requests[hexs(msg.RequestId)]
		si.respCtx = sc.Pre.Contexts[hexs(si.respReq.RequestContextId)]
		si.respGood = len(msg.Output) == 0 || outputWellFormed(msg.Output)
	case *types.MsgCallService:
		if msg.ServiceName == modSvcName && sc.run.w.hasModSvc {
			si.modSvcCall = msg
		}
	case *types.MsgWithdrawEarnedFees:
		si.withdraw = msg
	}
	return si
}

func (m *Mon) updateLedgers(sc *StepCtx) {
	if sc.Idx >= 0 {
		for bk, b := range sc.Post.Bindings {
			if pb, had := sc.Pre.Bindings[bk]; had && pb.Available && !b.Available {
				m.disabledAt[bk] = sc.Pre.Time
			}
		}
	}
	pre, post := sc.Pre, sc.Post
	si := sc.info()

	// ---- requests ----
	for id, r := range post.Requests {
		if _, ok := pre.Requests[id]; ok {
			continue
		}
		cid := hexs(r.RequestContextId)
		rc, ok := post.Contexts[cid]
		if !ok {
			rc = pre.Contexts[cid]
		}
		_, _, _, idx, _ := reqParts(id)
		le := &ReqLedger{ID: id, Ctx: cid, Batch: r.RequestContextBatchCounter, Index: idx, Consumer: hexs(rc.Consumer), Provider: hexs(r.Provider),
			Service: rc.ServiceName, Fee: coinsAmt(r.ServiceFee), Super: rc.SuperMode, IssueH: r.RequestHeight, ExpH: r.ExpirationHeight,
			Status: "pending", Module: rc.ModuleName}
		if prev, dup := m.reqs[id]; dup {
			m.fail(sc, "C18", "request-id-unique", "", "request id %s issued twice (first status %s)", id, prev.Status)
		}
		m.reqs[id] = le
		if !post.ActiveID[id] {
			// created and settled in the same step (module service call)
			if si.modSvcCall == nil {
				m.fail(sc, "C02", "R6-once", "born-settled", "request %.24s.. appears without being pending (after %s)", id, sc.Step.Desc)
			}
			if resp, ok := post.Responses[id]; ok && (len(resp.Output) == 0 || outputWellFormed(resp.Output)) {
				le.Status = "paid"
			} else {
				le.Status = "refunded-bad"
			}
			// what counts is what the module's handler answered, not what was stored of it
			if n := len(sc.Res.ModSvc); n > 0 {
				out := sc.Res.ModSvc[n-1][1]
				if len(out) == 0 || outputWellFormed(out) {
					le.Status = "paid"
				} else {
					le.Status = "refunded-bad"
				}
			}
		}
	}
	for id := range post.ActiveID {
		if pre.ActiveID[id] {
			continue
		}
		le := m.reqs[id]
		if le == nil {
			continue
		}
		if _, isNew := pre.Requests[id]; isNew || le.Status != "pending" {
			m.fail(sc, "C02", "R6-once", "re-enters-pending", "request %.24s.. (status %s) becomes pending again (after %s)", id, le.Status, sc.Step.Desc)
		}
	}
	for id := range pre.ActiveID {
		if post.ActiveID[id] {
			continue
		}
		le := m.reqs[id]
		if le == nil {
			continue
		}
		switch {
		case sc.IsRestart() && sc.Res.OK:
			le.Status = "refunded-at-restart"
		case si.respond != nil && hexs(si.respond.RequestId) == id:
			if si.respGood {
				le.Status = "paid"
			} else {
				le.Status = "refunded-bad"
			}
		case sc.IsBlock() && pre.Requests[id].ExpirationHeight == pre.Height:
			if le.Super {
				le.Status = "expired-super"
			} else {
				le.Status = "refunded-expired"
			}
		default:
			le.Status = "vanished"
			off := pre.Requests[id].ExpirationHeight - pre.Height
			m.fail(sc, "C02", "R6-once", "left-pending-unsettled", "request %.24s.. stopped being pending without a response or its expiry block (expiry in %d blocks; after %s)", id, off, sc.Step.Desc)
			m.fail(sc, "C08", "pending-until-expiry", stepClass(sc), "request %.24s.. stopped being pending %d blocks before its expiry block ended (after %s)", id, off, sc.Step.Desc)
		}
	}

	// ---- contexts ----
	if sc.IsRestart() {
		// every batch in flight at a restart is abandoned (its fees were refunded), also the batches
		// of contexts that the preparation dropped
		for _, t := range m.ctxs {
			for _, bi := range t.Batches {
				bi.Closed = true
			}
		}
	}
	for id, rc := range post.Contexts {
		t := m.ctxs[id]
		if t == nil {
			t = &CtxTimeline{ID: id, CreatedH: post.Height, CreatedIdx: sc.Idx, Module: rc.ModuleName, Repeated: rc.Repeated, Batches: map[uint64]*BatchInfo{}}
			m.ctxs[id] = t
			if sc.Idx >= 0 {
				if _, had := pre.Contexts[id]; had {
					t.CreatedH = -1 // present at genesis of a replayed/imported state
				}
			}
		}
		if op, target, isOp := ctxOpTarget(sc); isOp && target == id && sc.Res.OK {
			if op == "kill" && !t.Killed {
				t.Killed, t.KilledIdx = true, sc.Idx
			}
			if op == "update" {
				t.Providers = provHex(rc.Providers)
				var f uint64
				var to int64
				if mm, ok := sc.Msg.(*types.MsgUpdateRequestContext); ok {
					f, to = mm.RepeatedFrequency, mm.Timeout
				} else if sc.Step.Mod != nil {
					f, to = sc.Step.Mod.Freq, sc.Step.Mod.Timeout
				}
				if sc.Step.Mod != nil && sc.Step.Mod.Threshold != 0 {
					t.NamedThreshold = sc.Step.Mod.Threshold
				}
				// C06: an accepted update of the response threshold takes effect
				if t.Module != "" && t.NamedThreshold != 0 {
					m.hit("C06", "threshold-as-named", "")
					if rc.ResponseThreshold != t.NamedThreshold {
						m.fail(sc, "C06", "threshold", "stored-differs-from-named", "after %s context %.16s has response threshold %d, its module named %d", sc.Step.Desc, id, rc.ResponseThreshold, t.NamedThreshold)
					}
				}
				if f != 0 {
					t.NamedFreq = f
				}
				if to != 0 {
					t.NamedTimeout = to
				}
				// C10: an update changes only the schedule terms it names
				if t.NamedSet && rc.Repeated && (rc.RepeatedFrequency != t.NamedFreq || rc.Timeout != t.NamedTimeout) {
					m.fail(sc, "C10", "schedule-as-named", fmt.Sprintf("freq%v-timeout%v", rc.RepeatedFrequency != t.NamedFreq, rc.Timeout != t.NamedTimeout), "after %s context %.16s has timeout %d / frequency %d, its consumer named timeout %d / frequency %d", sc.Step.Desc, id, rc.Timeout, rc.RepeatedFrequency, t.NamedTimeout, t.NamedFreq)
				}
				m.hit("C10", "schedule-as-named", fmt.Sprintf("f%v/t%v", f != 0, to != 0))
				// a repeated context whose frequency is below its timeout would have to start a batch
				// while the previous one is still in flight (or can start none at all)
				if rc.Repeated && rc.Timeout > 0 && rc.RepeatedFrequency < uint64(rc.Timeout) {
					m.fail(sc, "C10", "no-overlap", "frequency-below-timeout", "after %s context %.16s has frequency %d below its timeout %d", sc.Step.Desc, id, rc.RepeatedFrequency, rc.Timeout)
				}
			}
		}
		if !t.NamedSet && sc.Idx >= 0 {
			// first sight: the terms the call fixed (a zero frequency means "same as the timeout")
			t.NamedSet, t.NamedFreq, t.NamedTimeout = true, rc.RepeatedFrequency, rc.Timeout
			t.NamedThreshold = rc.ResponseThreshold
		}
		if t.Providers == nil {
			t.Providers = provHex(rc.Providers)
		}
		if t.Gone {
			m.fail(sc, "C09", "no-resurrection", "", "context %.16s reappears after having been removed", id)
			t.Gone = false
		}
		if rc.RepeatedTotal > t.MaxTotal {
			t.MaxTotal = rc.RepeatedTotal
		}
		if rc.RepeatedTotal < 0 {
			t.NegTotal = true
		}
		prc, had := pre.Contexts[id]
		if had && rc.BatchCounter > prc.BatchCounter {
			issued := 0
			for rid := range post.Requests {
				if _, old := pre.Requests[rid]; old {
					continue
				}
				if c, n, _, _, ok := reqParts(rid); ok && c == id && n == rc.BatchCounter {
					issued++
				}
			}
			adv := Advance{H: pre.Height, Counter: rc.BatchCounter, Timeout: prc.Timeout, Freq: prc.RepeatedFrequency, Issued: issued, RunningAll: true, ParamsSame: true}
			m.c10OnAdvance(sc, t, prc, rc, adv)
			t.Advances = append(t.Advances, adv)
			t.Batches[rc.BatchCounter] = &BatchInfo{Counter: rc.BatchCounter, StartStep: sc.Idx, StartH: pre.Height, ExpH: pre.Height + prc.Timeout,
				Threshold: prc.ResponseThreshold, Issued: issued, Module: rc.ModuleName}
			// the batch is judged against the response threshold in force when it started
			if rc.ModuleName != "" {
				m.hit("C12", "threshold-snapshot", "")
				if t.Module != "" && t.NamedThreshold != 0 && prc.ResponseThreshold != t.NamedThreshold {
					// the stored threshold is what is being checked: the batch must be judged by the
					// threshold its module named last (create or accepted update), whatever happened
					// to the record in between (a zero-height restart, say)
					m.fail(sc, "C12", "threshold-as-named", "", "context %.16s batch %d starts under response threshold %d, its module named %d", id, rc.BatchCounter, prc.ResponseThreshold, t.NamedThreshold)
				}
				if rc.BatchResponseThreshold != prc.ResponseThreshold {
					m.fail(sc, "C12", "threshold-snapshot", "", "context %.16s batch %d started under response threshold %d but records %d for the batch", id, rc.BatchCounter, prc.ResponseThreshold, rc.BatchResponseThreshold)
				}
			}
		}
		if sc.IsRestart() {
			for _, bi := range t.Batches {
				bi.Closed = true // a batch in flight at the restart is abandoned (its fees were refunded)
			}
		}
		if n := len(t.Advances); n > 0 {
			a := &t.Advances[n-1]
			if sc.IsRestart() {
				a.RunningAll = false
			}
			if rc.State != types.RUNNING {
				a.RunningAll = false
			}
			if rc.Timeout != a.Timeout || rc.RepeatedFrequency != a.Freq {
				a.ParamsSame = false
			}
		}
		// C11: when the one pending event of a running context is an expiry, it is the expiry
		// of its current batch (issued at H under timeout T: H+T), not of a batch that never was
		if rc.State == types.RUNNING && !t.Restarted && len(post.ExpQ[id]) == 1 && len(post.NewQ[id]) == 0 {
			e := post.ExpQ[id][0]
			n := len(t.Advances)
			switch {
			case rc.BatchCounter == 0:
				m.fail(sc, "C11", "Q4-expiry-of-current-batch", "no-batch", "running context %.16s waits only for an expiry at %d but never issued a batch (after %s)", id, e, sc.Step.Desc)
			case n > 0 && t.Advances[n-1].Counter == rc.BatchCounter:
				m.hit("C11", "Q4-expiry-of-current-batch", fmt.Sprintf("rep%v/mod%v", rc.Repeated, rc.ModuleName != ""))
				if a := t.Advances[n-1]; e != a.H+a.Timeout {
					m.fail(sc, "C11", "Q4-expiry-of-current-batch", "other-height", "running context %.16s waits only for an expiry at %d, but its current batch %d was issued at %d with timeout %d (after %s)", id, e, rc.BatchCounter, a.H, a.Timeout, sc.Step.Desc)
				}
			}
		}
	}
	for id := range pre.Contexts {
		if _, ok := post.Contexts[id]; !ok {
			if t := m.ctxs[id]; t != nil {
				t.Gone = true
			}
		}
	}
}

// C10 rules evaluated at the moment a batch counter advances.
func (m *Mon) c10OnAdvance(sc *StepCtx, t *CtxTimeline, prc, rc types.RequestContext, adv Advance) {
	m.eval("C10")
	n := len(t.Advances)
	kind := "issued"
	if adv.Issued == 0 {
		kind = "skipped"
	}
	if !sc.IsBlock() {
		kind = "module-service"
	}
	if n == 0 && t.Restarted {
		m.hit("C10", "first-batch-after-restart", kind)
	} else if n == 0 {
		m.hit("C10", "first-batch", fmt.Sprintf("%s/atcall%v/rep%v", kind, adv.H == t.CreatedH, prc.Repeated))
		if t.CreatedH >= 0 && adv.H != t.CreatedH && t.RunningAtCreateBlockEnd {
			m.fail(sc, "C10", "first-batch-at-call-height", "late", "context %.16s created at %d and running at that block's end got its first batch at %d", t.ID, t.CreatedH, adv.H)
		}
	} else {
		last := t.Advances[n-1]
		gap := adv.H - last.H
		sit := fmt.Sprintf("%s/gap-to%d/f-t%d/run%v/same%v", kind, clampI(gap-last.Timeout, -1, 3), clampI(int64(last.Freq)-last.Timeout, 0, 3), last.RunningAll, last.ParamsSame)
		m.hit("C10", "no-overlap", sit)
		if gap < last.Timeout {
			m.fail(sc, "C10", "no-overlap", kind, "context %.16s: batch %d starts at %d, before batch %d (started %d, timeout %d) has expired", t.ID, adv.Counter, adv.H, last.Counter, last.H, last.Timeout)
		}
		if last.RunningAll && last.ParamsSame && prc.Timeout == last.Timeout && prc.RepeatedFrequency == last.Freq && last.Freq < (1<<62) {
			m.hit("C10", "cadence", fmt.Sprintf("%s/f%d/t%d", kind, clampI(int64(last.Freq), 0, 6), clampI(last.Timeout, 0, 5)))
			if gap != int64(last.Freq) {
				m.fail(sc, "C10", "cadence", fmt.Sprintf("off%d", clampI(gap-int64(last.Freq), -3, 3)), "context %.16s stayed running with timeout %d, frequency %d; batches %d and %d started at %d and %d (gap %d)", t.ID, last.Timeout, last.Freq, last.Counter, adv.Counter, last.H, adv.H, gap)
			}
		}
	}
	cnt := n + 1
	if t.Restarted {
		// a zero-height restart abandons (and refunds) the batch in flight and keeps every
		// context, paused: whether the abandoned batch counts is not stated by C10
		return
	}
	if !prc.Repeated {
		m.hit("C10", "one-shot-single-batch", kind)
		if cnt > 1 {
			m.fail(sc, "C10", "one-shot-single-batch", kind, "one-shot context %.16s got batch number %d (after %s)", t.ID, cnt, sc.Step.Desc)
		}
	} else if !t.NegTotal && t.MaxTotal > 0 {
		m.hit("C10", "total-respected", fmt.Sprintf("%s/left%d", kind, clampI(t.MaxTotal-int64(cnt), -1, 3)))
		if int64(cnt) > t.MaxTotal || int64(adv.Counter) > t.MaxTotal {
			m.fail(sc, "C10", "total-respected", kind, "repeated context %.16s with largest total %d got batch %d (counter %d)", t.ID, t.MaxTotal, cnt, adv.Counter)
		}
	}
}

func clampI(v, lo, hi int64) int64 {
	if v < lo {
		return lo
	}
	if v > hi {
		return hi
	}
	return v
}

// finish: end-of-history checks (C02-R6 / C11 bounded progress).
func (m *Mon) finish(r *Run) {
	s := r.pre
	for _, f := range m.atFinish {
		f(r)
	}
	for id, le := range m.reqs {
		if le.Status == "pending" && le.ExpH < s.Height {
			m.fail(nil, "C11", "bounded-progress", "", "request %.24s.. (expiry %d) still unsettled at height %d", id, le.ExpH, s.Height)
			m.fail(nil, "C02", "R6-once", "never-settled", "request %.24s.. (expiry %d) still unsettled at height %d", id, le.ExpH, s.Height)
		}
		if le.Status != "pending" {
			m.hit("C02", "R6-settled", le.Status+"/fee"+sgn(le.Fee))
		}
	}
	if len(m.stats.Samples) < 3 && len(r.hist.Steps) > 0 {
		h := *r.hist
		if len(h.Steps) > 40 {
			h.Steps = h.Steps[:40]
		}
		m.stats.Samples = append(m.stats.Samples, &h)
	}
}

var _ = sdk.ZeroInt

func provHex(ps []sdk.AccAddress) []string {
	out := make([]string, len(ps))
	for i, p := range ps {
		out[i] = hexs(p)
	}
	return out
}
