package main

// Driver: runs the real module code (message handler, EndBlocker, keeper API used by
// other modules) on the repository's simapp, one history per CacheContext branch.

import (
	"crypto/sha256"
	"encoding/binary"
	"encoding/hex"
	"encoding/json"
	"fmt"
	"github.com/cosmos/cosmos-sdk/x/bank"
	"os"
	"runtime/debug"
	"strings"
	"time"

	abci "github.com/tendermint/tendermint/abci/types"
	tmbytes "github.com/tendermint/tendermint/libs/bytes"
	"github.com/tendermint/tendermint/libs/log"
	tmproto "github.com/tendermint/tendermint/proto/tendermint/types"
	dbm "github.com/tendermint/tm-db"

	sdk "github.com/cosmos/cosmos-sdk/types"
	authtypes "github.com/cosmos/cosmos-sdk/x/auth/types"
	banktypes "github.com/cosmos/cosmos-sdk/x/bank/types"

	service "github.com/irismod/service"
	simapp "github.com/irismod/service/app"
	"github.com/irismod/service/keeper"
	"github.com/irismod/service/types"
)

const (
	denom       = "stake"
	verifModule = "verifmod" // test double: a module that owns request contexts
	halfModule  = "halfmod"  // test double: a module that registered only a response callback
	modSvcOwner = "verifsvc" // test double: a module that reserves a service name
	modSvcName  = "modsvc"   // name of the module-reserved service
	modSvcName2 = "modsvcb"  // a second reserved name (its binding is never installed)
	startHeight = int64(10)
)

var genesisTime = time.Date(2030, 1, 1, 0, 0, 0, 0, time.UTC)

// CallbackRec is one invocation of a callback registered by the verifmod double.
type CallbackRec struct {
	Kind    string   `json:"kind"` // "response" | "state"
	CtxID   string   `json:"ctx"`
	Outputs []string `json:"outputs,omitempty"`
	Err     bool     `json:"err,omitempty"`
	Cause   string   `json:"cause,omitempty"`
	// what the callback saw in the store at that instant
	SeenCounter uint64 `json:"seen_counter"`
	SeenFound   bool   `json:"seen_found"`
	// what the module double did in reaction, from inside the callback
	React   string `json:"react,omitempty"`
	ReactOK bool   `json:"react_ok,omitempty"`
}

// ModSvcBehaviour selects how the module service double answers.
type ModSvcBehaviour int

const (
	ModSvcGood ModSvcBehaviour = iota
	ModSvcMalformed
	ModSvcNoOutput
)

// App bundles one simapp instance with the doubles registered on its keeper.
type App struct {
	app            *simapp.SimApp
	k              keeper.Keeper
	handler        sdk.Handler
	baseCtx        sdk.Context
	modSvcProvider sdk.AccAddress

	// mutable per-history hooks used by the registered callbacks
	cur           *World
	startAt       int64  // height at which the next history starts
	nextCommit    bool   // the next history started on this worker runs in commit mode (on a chain of its own)
	db            dbm.DB // commit mode: the node's database (survives a node restart)
	noNodeRestart bool   // replicas of the replay differential never restart the node
	commit        bool   // built by NewAppAt: one history, through BeginBlock / EndBlock / Commit
}

// NewApp builds a fresh chain (real bank/auth/params keepers, IAVL store) and
// registers the two module doubles the way a host chain would in its app wiring.
func NewApp() *App { return newAppOn(simapp.Setup(false), true) }

// NewAppAt builds a chain whose first block has the given height (what simapp.Setup does,
// plus InitialHeight), so that a history can go through the application's real
// BeginBlock / EndBlock / Commit at any start height ("commit mode").
func NewAppAt(initialHeight int64) *App {
	db := dbm.NewMemDB()
	app := simapp.NewSimApp(log.NewNopLogger(), db, nil, true, map[int64]bool{}, simapp.DefaultNodeHome, 0, simapp.MakeEncodingConfig())
	stateBytes, err := json.MarshalIndent(simapp.NewDefaultGenesisState(), "", " ")
	must(err)
	app.InitChain(abci.RequestInitChain{
		Time:            genesisTime,
		Validators:      []abci.ValidatorUpdate{},
		ConsensusParams: simapp.DefaultConsensusParams,
		AppStateBytes:   stateBytes,
		InitialHeight:   initialHeight,
	})
	a := newAppOn(app, true)
	a.commit = true
	a.db = db
	return a
}

// restartNode (commit mode, between a Commit and the next BeginBlock) does what a node restart
// does: the application object is thrown away and built again over the same database, loading
// the last committed version; the host application registers its callbacks and module
// services again. Everything the module keeps outside the store is gone.
func (w *World) restartNode() {
	old := w.a
	sim := simapp.NewSimApp(log.NewNopLogger(), old.db, nil, true, map[int64]bool{}, simapp.DefaultNodeHome, 0, simapp.MakeEncodingConfig())
	na := newAppOn(sim, false)
	na.commit, na.db, na.startAt, na.noNodeRestart = true, old.db, old.startAt, old.noNodeRestart
	na.cur = w
	old.cur = nil
	w.a = na
}

func newAppOn(app *simapp.SimApp, withBaseCtx bool) *App {
	a := &App{}
	a.app = app
	a.k = a.app.ServiceKeeper
	a.handler = service.NewHandler(a.k)
	if withBaseCtx {
		a.baseCtx = a.app.BaseApp.NewContext(false, tmproto.Header{Height: startHeight, Time: genesisTime})
	}
	a.modSvcProvider = sdk.AccAddress(sha256Sum("modsvc-provider")[:20])

	must(a.k.RegisterResponseCallback(verifModule, func(ctx sdk.Context, id tmbytes.HexBytes, outputs []string, err error) {
		if a.cur == nil {
			return
		}
		rc, found := a.cur.rawContext(ctx, id)
		a.cur.cbLog = append(a.cur.cbLog, CallbackRec{
			Kind: "response", CtxID: hexs(id), Outputs: append([]string(nil), outputs...), Err: err != nil,
			SeenCounter: rc.BatchCounter, SeenFound: found,
		})
		if a.cur.respCbKillOthers && err != nil {
			// a module may react to a failed batch by giving up its other contexts
			for _, other := range a.cur.moduleContexts(ctx) {
				if other != hexs(id) {
					orc, _ := a.cur.rawContext(ctx, unhex(other))
					if orc.State != types.COMPLETED && orc.Repeated {
						ok := a.k.KillRequestContext(ctx, unhex(other), orc.Consumer) == nil
						a.cur.cbLog = append(a.cur.cbLog, CallbackRec{Kind: "react", CtxID: other, React: "kill", ReactOK: ok})
					}
				}
			}
		}
	}))
	must(a.k.RegisterStateCallback(verifModule, func(ctx sdk.Context, id tmbytes.HexBytes, cause string) {
		if a.cur == nil {
			return
		}
		rc, found := a.cur.rawContext(ctx, id)
		rec := CallbackRec{Kind: "state", CtxID: hexs(id), Cause: cause, SeenCounter: rc.BatchCounter, SeenFound: found}
		if a.cur.stateCbKill && found {
			// a module may react to the pause by giving the context up
			rec.React = "kill"
			rec.ReactOK = a.k.KillRequestContext(ctx, id, rc.Consumer) == nil
		}
		if a.cur.stateCbKillOthers {
			// ... or by giving up its other contexts as well
			for _, other := range a.cur.moduleContexts(ctx) {
				if other != hexs(id) {
					orc, _ := a.cur.rawContext(ctx, unhex(other))
					if orc.State != types.COMPLETED && orc.Repeated {
						ok := a.k.KillRequestContext(ctx, unhex(other), orc.Consumer) == nil
						a.cur.cbLog = append(a.cur.cbLog, CallbackRec{Kind: "react", CtxID: other, React: "kill", ReactOK: ok})
					}
				}
			}
		}
		a.cur.cbLog = append(a.cur.cbLog, rec)
	}))
	// a second module that registered a response callback only: contexts cannot be created for it
	must(a.k.RegisterResponseCallback(halfModule, func(ctx sdk.Context, id tmbytes.HexBytes, outputs []string, err error) {}))
	must(a.k.RegisterModuleService(modSvcOwner, &types.ModuleService{
		ServiceName: modSvcName,
		Provider:    a.modSvcProvider,
		ReuquestService: func(ctx sdk.Context, input string) (string, string) {
			b := ModSvcGood
			if a.cur != nil {
				b = a.cur.modSvcBehaviour
			}
			result, output := `{"code":200,"message":""}`, `{"header":{},"body":{"rate":"1.0"}}`
			switch b {
			case ModSvcMalformed:
				result, output = `{"code":200,"message":""}`, `{"nohdr":1}`
			case ModSvcNoOutput:
				result, output = `{"code":500,"message":"boom"}`, ``
			}
			if a.cur != nil {
				// what the module's handler really answered, for the oracles
				a.cur.modSvcLog = append(a.cur.modSvcLog, [2]string{result, output})
			}
			return result, output
		},
	}))
	// a second module reserves another name: with two entries the keeper's by-name lookup has
	// something to get wrong
	must(a.k.RegisterModuleService(modSvcOwner+"2", &types.ModuleService{
		ServiceName: modSvcName2,
		Provider:    sdk.AccAddress(sha256Sum("modsvc2-provider")[:20]),
		ReuquestService: func(ctx sdk.Context, input string) (string, string) {
			return `{"code":200,"message":""}`, `{"header":{},"body":{}}`
		},
	}))
	return a
}

func (a *App) appModule() service.AppModule {
	return service.NewAppModule(a.app.AppCodec(), a.k, a.app.AccountKeeper, a.app.BankKeeper)
}

// Actor is a named address.
type Actor struct {
	Name string
	Addr sdk.AccAddress
}

// World is one history being executed.
type World struct {
	a                 *App
	ctx               sdk.Context // history branch
	height            int64
	now               time.Time
	txSeq             uint64
	lastTx            []byte
	lastIdx           int64
	params            types.Params
	cbLog             []CallbackRec
	modSvcBehaviour   ModSvcBehaviour
	modSvcLog         [][2]string // (result, output) pairs the module-service double returned in this step
	hasModSvc         bool
	stateCbKill       bool // the verifmod double kills a context from inside its state callback
	viaApp            bool // end-of-block through the application's module manager
	stateCbKillOthers bool // the double also kills its other contexts from inside the state callback
	respCbKillOthers  bool // the double kills its other contexts from inside the response callback of a failed batch
	hostileHashes     bool // some transactions get structured hashes
	commit            bool // real BeginBlock / EndBlock / Commit of the application around every block
	begun             bool
	appHashes         []string
	nodeRestarts      int
	endBlockEvents    map[int64][]abci.Event // commit mode: what the application returned from EndBlock, per height

	tracked    map[string]string // addr hex -> name, accounts whose balance is observed
	trackedOrd []string
	actors     map[string]sdk.AccAddress
}

// moduleContexts lists (raw scan) the IDs of the contexts owned by the verifmod double.
func (w *World) moduleContexts(ctx sdk.Context) []string {
	store := ctx.KVStore(w.a.app.GetKey(types.StoreKey))
	it := sdk.KVStorePrefixIterator(store, []byte{0x08})
	defer it.Close()
	var out []string
	for ; it.Valid(); it.Next() {
		var rc types.RequestContext
		if rc.Unmarshal(it.Value()) == nil && rc.ModuleName == verifModule {
			out = append(out, hexs(it.Key()[1:]))
		}
	}
	return out
}

// InstallGhostContext writes, the way a genesis import does, a paused context that belongs
// to a module the application no longer wires (no callbacks registered for it).
func (w *World) InstallGhostContext(id []byte, rc types.RequestContext) {
	w.a.k.SetRequestContext(w.ctx, id, rc)
}

func (w *World) rawContext(ctx sdk.Context, id []byte) (types.RequestContext, bool) {
	store := ctx.KVStore(w.a.app.GetKey(types.StoreKey))
	bz := store.Get(append([]byte{0x08}, id...))
	var rc types.RequestContext
	if bz == nil {
		return rc, false
	}
	if err := rc.Unmarshal(bz); err != nil {
		return rc, false
	}
	return rc, true
}

// NewWorld starts a history on a fresh branch of the post-genesis state.
func (a *App) NewWorld(params types.Params) *World {
	ctx, _ := a.baseCtx.CacheContext()
	if a.startAt == 0 {
		a.startAt = startHeight
	}
	if a.commit {
		// commit mode: the history works directly on the application's deliver state
		ctx = a.app.BaseApp.NewContext(false, tmproto.Header{Height: a.startAt, Time: genesisTime})
	}
	w := &World{a: a, ctx: ctx, height: a.startAt, now: genesisTime, params: params, commit: a.commit,
		tracked: map[string]string{}, actors: map[string]sdk.AccAddress{}}
	a.cur = w
	a.k.SetParams(w.ctx, params)
	w.Track("escrow", authtypes.NewModuleAddress(types.RequestAccName))
	w.Track("deposits", authtypes.NewModuleAddress(types.DepositAccName))
	w.Track("feecollector", authtypes.NewModuleAddress(authtypes.FeeCollectorName))
	w.Track("govacc", authtypes.NewModuleAddress("gov"))
	return w
}

func (w *World) Track(name string, addr sdk.AccAddress) {
	h := hexs(addr)
	if _, ok := w.tracked[h]; ok {
		return
	}
	w.tracked[h] = name
	w.trackedOrd = append(w.trackedOrd, h)
	if _, ok := w.actors[name]; !ok {
		w.actors[name] = addr
	}
}

// Fund creates the account and gives it coins, raising supply accordingly.
func (w *World) Fund(name string, addr sdk.AccAddress, amt sdk.Int) {
	w.Track(name, addr)
	app := w.a.app
	if name == "govacc" {
		app.AccountKeeper.GetModuleAccount(w.ctx, "gov") // a module account of the host, created as such
	}
	if app.AccountKeeper.GetAccount(w.ctx, addr) == nil {
		app.AccountKeeper.SetAccount(w.ctx, app.AccountKeeper.NewAccountWithAddress(w.ctx, addr))
	}
	if amt.IsPositive() {
		coins := sdk.NewCoins(sdk.NewCoin(denom, amt))
		prev := app.BankKeeper.GetSupply(w.ctx)
		app.BankKeeper.SetSupply(w.ctx, banktypes.NewSupply(prev.GetTotal().Add(coins...)))
		if _, err := app.BankKeeper.AddCoins(w.ctx, addr, coins); err != nil {
			panic(err)
		}
	}
}

// InstallModuleService writes the module-reserved service definition and its
// zero-deposit binding directly, as a host chain does at genesis (cf. oracle-price).
func (w *World) InstallModuleService(pricing string) { w.InstallModuleServiceQoS(pricing, 1) }

func (w *World) InstallModuleServiceQoS(pricing string, qos uint64) {
	k := w.a.k
	def := types.ServiceDefinition{
		Name: modSvcName, Description: "module service", Tags: []string{"mod"},
		Author: w.a.modSvcProvider, AuthorDescription: "module", Schemas: `{"input":{"type":"object"},"output":{"type":"object"}}`,
	}
	k.SetServiceDefinition(w.ctx, def)
	b := types.ServiceBinding{
		ServiceName: modSvcName, Provider: w.a.modSvcProvider,
		Deposit: sdk.NewCoins(sdk.NewCoin(denom, sdk.NewInt(0))),
		Pricing: pricing, QoS: qos, Options: `{}`, Available: true, DisabledTime: time.Time{}, Owner: w.a.modSvcProvider,
	}
	if op, e := ParsePricingText(pricing); e != nil {
		b.Pricing = fmt.Sprintf(`{"price":"1%s"}`, denom)
	} else if !op.timesStorable() {
		// a host installs only a binding whose promotion times can be stored
		// (instants between 0001-01-01 and 9999-12-31 UTC); decided by the harness itself
		b.Pricing = fmt.Sprintf(`{"price":"%s%s"}`, op.BaseRat.FloatString(18), op.Denom)
	}
	must(k.SetServiceBindingForGenesis(w.ctx, b))
	w.Track("modsvc", w.a.modSvcProvider)
	w.hasModSvc = true
}

func (w *World) curCtx() sdk.Context {
	return w.ctx.WithBlockHeader(tmproto.Header{Height: w.height, Time: w.now})
}

// StepResult is what the driver observed around one step.
type StepResult struct {
	OK        bool          `json:"ok"`
	Rejected  bool          `json:"rejected,omitempty"` // ValidateBasic rejected (handler not run)
	Err       string        `json:"err,omitempty"`
	ErrCode   string        `json:"err_code,omitempty"`
	Panic     string        `json:"panic,omitempty"`
	PanicSite string        `json:"panic_site,omitempty"`
	Events    []EventRec    `json:"-"`
	Callbacks []CallbackRec `json:"callbacks,omitempty"`
	NewCtxID  string        `json:"new_ctx,omitempty"`
	WallNs    int64         `json:"-"`
	ModSvc    [][2]string   `json:"-"` // replies of the module-service double during the step
	TxHash    string        `json:"-"` // hex, of the transaction the step ran in (msg / mod steps)
	MsgIdx    int64         `json:"-"`
}

type EventRec struct {
	Type  string
	Attrs map[string]string
}

func convEvents(evs sdk.Events) []EventRec {
	out := make([]EventRec, 0, len(evs))
	for _, e := range evs {
		r := EventRec{Type: e.Type, Attrs: map[string]string{}}
		for _, a := range e.Attributes {
			r.Attrs[string(a.Key)] = string(a.Value)
		}
		out = append(out, r)
	}
	return out
}

func panicSite(stack string) string {
	// first frame inside the module under test
	lines := strings.Split(stack, "\n")
	for _, l := range lines {
		l = strings.TrimSpace(l)
		if strings.HasPrefix(l, "github.com/irismod/service") && !strings.Contains(l, "/app.") {
			if i := strings.Index(l, "("); i > 0 {
				l = l[:i]
			}
			l = strings.TrimPrefix(l, "github.com/irismod/service")
			l = strings.TrimPrefix(l, "/")
			l = strings.TrimPrefix(l, ".")
			return l
		}
	}
	return "outside-module"
}

func panicClass(v interface{}) string {
	s := fmt.Sprint(v)
	switch {
	case strings.Contains(s, "before 0001-01-01") || strings.Contains(s, "after 10000-01-01"):
		return "timestamp-out-of-range"
	case strings.Contains(s, "index out of range"):
		return "index-out-of-range"
	case strings.Contains(s, "nil pointer"):
		return "nil-deref"
	case strings.Contains(s, "Int overflow") || strings.Contains(s, "overflow"):
		return "int-overflow"
	case strings.Contains(s, "negative coin amount"):
		return "negative-coin"
	case strings.Contains(s, "slice bounds"):
		return "slice-bounds"
	case strings.Contains(s, "interface conversion"):
		return "type-assertion"
	case strings.Contains(s, "insufficient"):
		return "insufficient-funds"
	}
	if len(s) > 40 {
		s = s[:40]
	}
	return strings.ReplaceAll(s, " ", "_")
}

func (w *World) nextTxHash() []byte {
	w.txSeq++
	var b [8]byte
	binary.BigEndian.PutUint64(b[:], w.txSeq)
	h := sha256.Sum256(append([]byte("verif-tx-"), b[:]...))
	return h[:]
}

// DeliverMsg does what baseapp.runMsgs does for one message.
func (w *World) DeliverMsg(msg sdk.Msg) (res StepResult) { return w.DeliverMsgTx(msg, false) }

// DeliverMsgTx: with sameTx the message is the next one of the previous message's
// transaction (same tx hash, next message index).
func (w *World) DeliverMsgTx(msg sdk.Msg, sameTx bool) (res StepResult) {
	return w.deliver(msg, sameTx, false)
}

// SimulateMsg runs the message the way a node answers a gas-estimation (simulate) request -
// wallets send one before nearly every transaction: the handler runs on a branch of the
// current state that is thrown away whatever the outcome, under the hash the transaction will
// have. The store is untouched; whatever the module keeps outside the store is not.
func (w *World) SimulateMsg(msg sdk.Msg) (res StepResult) {
	res = w.deliver(msg, false, true)
	res.Callbacks, res.ModSvc, res.NewCtxID = nil, nil, ""
	return
}

func (w *World) deliver(msg sdk.Msg, sameTx bool, dry bool) (res StepResult) {
	w.cbLog = nil
	w.modSvcLog = nil
	defer func() { res.ModSvc, w.modSvcLog = w.modSvcLog, nil }()
	if err := msg.ValidateBasic(); err != nil {
		res.Rejected = true
		res.Err = err.Error()
		return
	}
	var txHash []byte
	msgIdx := int64(0)
	if sameTx && w.lastTx != nil {
		// hand the module a slice with spare capacity, as a host application may
		txHash = append(make([]byte, 0, 64), w.lastTx...)
		msgIdx = w.lastIdx + 1
	} else if dry {
		// the hash the next transaction will have, without consuming it
		var b [8]byte
		binary.BigEndian.PutUint64(b[:], w.txSeq+1)
		h := sha256.Sum256(append([]byte("verif-tx-"), b[:]...))
		txHash = h[:]
	} else {
		txHash = w.nextTxHash()
		if w.hostileHashes && w.txSeq%5 == 0 {
			// hashes with structure: starting with a near-future height in big-endian, with a
			// store prefix byte repeated, all zero / all 0xff except a counter
			switch (w.txSeq / 5) % 4 {
			case 0:
				binary.BigEndian.PutUint64(txHash[:8], uint64(w.height+int64(w.txSeq/20%4)))
			case 1:
				for i := 0; i < 12; i++ {
					txHash[i] = []byte{0x13, 0x15, 0x08, 0x00}[(w.txSeq/20)%4]
				}
			case 2:
				for i := 0; i < 24; i++ {
					txHash[i] = 0x00
				}
			case 3:
				for i := 0; i < 24; i++ {
					txHash[i] = 0xff
				}
			}
		}
	}
	if !dry {
		w.lastTx, w.lastIdx = append([]byte(nil), txHash...), msgIdx
	}
	res.TxHash, res.MsgIdx = hexs(txHash), msgIdx
	cctx, write := w.curCtx().CacheContext()
	cctx = cctx.WithEventManager(sdk.NewEventManager())
	cctx = cctx.WithValue(types.TxHash, txHash).WithValue(types.MsgIndex, msgIdx)
	t0 := time.Now()
	func() {
		defer func() {
			if r := recover(); r != nil {
				res.Panic = panicClass(r) + ": " + fmt.Sprint(r)
				res.PanicSite = panicSite(string(debug.Stack()))
			}
		}()
		h := w.a.handler
		if w.viaApp || w.commit {
			// as baseapp.runMsgs finds it: the module's route (module.go Route) must carry the
			// message's own route name (msgs.go Route). The application's router itself cannot be
			// asked on a sealed baseapp.
			route := w.a.appModule().Route()
			if route.Path() != msg.Route() || route.Handler() == nil {
				res.Err = "unrecognized message route: " + msg.Route()
				res.ErrCode = "no-route"
				return
			}
			h = route.Handler()
		}
		r, err := h(cctx, msg)
		if err != nil {
			res.Err = err.Error()
			res.ErrCode = errCode(err)
			return
		}
		res.OK = true
		if r != nil {
			for _, e := range r.Events {
				er := EventRec{Type: e.Type, Attrs: map[string]string{}}
				for _, a := range e.Attributes {
					er.Attrs[string(a.Key)] = string(a.Value)
				}
				res.Events = append(res.Events, er)
			}
		}
	}()
	res.WallNs = time.Since(t0).Nanoseconds()
	if res.OK && !dry {
		write()
		res.Callbacks = w.cbLog
		if _, ok := msg.(*types.MsgCallService); ok {
			id := append(append([]byte(nil), w.lastTx...), make([]byte, 8)...)
			binary.BigEndian.PutUint64(id[len(w.lastTx):], uint64(msgIdx))
			res.NewCtxID = hexs(id)
		}
	}
	w.cbLog = nil
	return
}

// BankSend runs a bank MsgSend through the bank module's handler inside a cached context.
func (w *World) BankSend(from, to sdk.AccAddress, amt int64) (res StepResult) {
	w.cbLog = nil
	msg := banktypes.NewMsgSend(from, to, sdk.NewCoins(sdk.NewCoin(denom, sdk.NewInt(amt))))
	if err := msg.ValidateBasic(); err != nil {
		res.Rejected, res.Err = true, err.Error()
		return
	}
	cctx, write := w.curCtx().CacheContext()
	cctx = cctx.WithEventManager(sdk.NewEventManager())
	func() {
		defer func() {
			if r := recover(); r != nil {
				res.Panic = panicClass(r) + ": " + fmt.Sprint(r)
				res.PanicSite = panicSite(string(debug.Stack()))
			}
		}()
		if _, err := bank.NewHandler(w.a.app.BankKeeper)(cctx, msg); err != nil {
			res.Err, res.ErrCode = err.Error(), errCode(err)
			return
		}
		res.OK = true
	}()
	if res.OK {
		write()
	}
	return
}

func errCode(err error) string {
	s := err.Error()
	if i := strings.LastIndex(s, ": "); i >= 0 {
		return s[i+2:]
	}
	return s
}

// EndBlock runs the module's EndBlocker for the current height and then moves
// to the next block, dt later.
func (w *World) EndBlock(dt time.Duration) (res StepResult) {
	w.cbLog = nil
	ctx := w.curCtx().WithEventManager(sdk.NewEventManager())
	t0 := time.Now()
	func() {
		defer func() {
			if r := recover(); r != nil {
				res.Panic = panicClass(r) + ": " + fmt.Sprint(r)
				res.PanicSite = panicSite(string(debug.Stack()))
			}
		}()
		if w.commit {
			// the application's own EndBlock: every module's end blocker in the module manager's order
			resp := w.a.app.EndBlock(abci.RequestEndBlock{Height: w.height})
			if w.endBlockEvents == nil {
				w.endBlockEvents = map[int64][]abci.Event{}
			}
			w.endBlockEvents[w.height] = resp.Events
			for _, e := range resp.Events {
				er := EventRec{Type: e.Type, Attrs: map[string]string{}}
				for _, at := range e.Attributes {
					er.Attrs[string(at.Key)] = string(at.Value)
				}
				res.Events = append(res.Events, er)
			}
		} else if w.viaApp {
			// through the module's own AppModule.EndBlock (module.go), as the application's module
			// manager calls it. The other modules' end blockers are deliberately not run: simapp's
			// crisis module asserts the bank invariants every 5 blocks, and those panic as soon as
			// any account whose address is shorter than 20 bytes holds coins (see DESIGN.md, 9)
			w.a.appModule().EndBlock(ctx, abci.RequestEndBlock{Height: w.height})
		} else {
			service.EndBlocker(ctx, w.a.k)
		}
		res.OK = true
	}()
	res.WallNs = time.Since(t0).Nanoseconds()
	if !w.commit {
		res.Events = convEvents(ctx.EventManager().Events())
	}
	res.Callbacks = w.cbLog
	w.cbLog = nil
	w.height++
	w.now = w.now.Add(dt)
	return
}

// BeginFirstBlock (commit mode) runs the application's BeginBlock for the first block of the
// history; funding and host-installed records were written into the deliver state before.
func (w *World) BeginFirstBlock() {
	if !w.commit || w.begun {
		return
	}
	w.begun = true
	hdr := tmproto.Header{Height: w.height, Time: w.now}
	w.a.app.BeginBlock(abci.RequestBeginBlock{Header: hdr})
	w.ctx = w.a.app.BaseApp.NewContext(false, hdr)
}

// CommitAndBegin (commit mode) does what a node does between two blocks: Commit (the block's
// writes go into the IAVL trees, the application hash is formed) and BeginBlock of the next
// block (all modules' begin blockers). Returns the application hash.
func (w *World) CommitAndBegin() string {
	w.a.app.Commit()
	hash := hexs(w.a.app.LastCommitID().Hash)
	if os.Getenv("CHAINMON_STOREHASH") != "" {
		for _, n := range []string{"acc", "bank", "staking", "mint", "distribution", "slashing", "gov", "params", "ibc", "upgrade", "evidence", "transfer", "capability", "service"} {
			if k := w.a.app.GetKey(n); k != nil {
				fmt.Printf("  STOREHASH h=%d %s %x\n", w.height-1, n, w.a.app.BaseApp.NewUncachedContext(false, tmproto.Header{}).MultiStore().(sdk.CommitMultiStore).GetCommitKVStore(k).LastCommitID().Hash)
			}
		}
	}
	hdr := tmproto.Header{Height: w.height, Time: w.now}
	w.appHashes = append(w.appHashes, hash)
	if !w.a.noNodeRestart && len(w.appHashes)%5 == 2 {
		// the recorded run restarts its node here; the replicas of the replay differential do
		// not - their digests and application hashes must agree all the same (C20: "independent
		// of process")
		w.restartNode()
		w.nodeRestarts++
	}
	w.a.app.BeginBlock(abci.RequestBeginBlock{Header: hdr})
	w.ctx = w.a.app.BaseApp.NewContext(false, hdr)
	return hash
}

// ChangeParams is what an accepted parameter-change proposal does (x/params writes the new
// values between blocks). Only parameters whose change leaves every property well-defined
// are ever changed by the workloads: the timeout bound, tax, slash fraction and the two
// refund periods - never the minimum deposit terms or the base denomination.
func (w *World) ChangeParams(p types.Params) (res StepResult) {
	// as a governance parameter-change proposal does: straight into the module's parameter
	// subspace, not through the keeper
	ss, ok := w.a.app.ParamsKeeper.GetSubspace(types.ModuleName)
	if !ok {
		panic("no parameter subspace for the service module")
	}
	// a proposal whose values the parameter store's validation functions refuse fails as a whole
	// and changes nothing
	cctx, write := w.curCtx().CacheContext()
	if pan, _ := guard(func() { ss.SetParamSet(cctx, &p) }); pan != "" {
		res.Err = "parameter change refused: " + pan
		res.ErrCode = "params-refused"
		return
	}
	write()
	w.params = p
	res.OK = true
	return
}

// Restart does what a zero-height restart of the chain does to this module: prepare for
// the zero-height export, export the genesis, wipe the module's store and initialise it
// again from that genesis. Bank state (adjusted by the preparation's refunds) is kept,
// as the bank module's own export/import would carry it over.
//
// With rewrite the exported genesis is first put into a form that means the same but is not
// what ExportGenesis writes - what a migration script or a host chain's hand-written genesis
// may contain: the definition and binding lists in reverse order, and the (meaningless)
// disabled time of every AVAILABLE binding set to the Unix epoch instead of Go's zero time.
// ValidateGenesis accepts it; no statement gives the field a meaning while a binding is
// available.
func (w *World) Restart(rewrite bool) (res StepResult) {
	w.cbLog = nil
	cctx, write := w.curCtx().CacheContext()
	cctx = cctx.WithEventManager(sdk.NewEventManager())
	func() {
		defer func() {
			if r := recover(); r != nil {
				res.Panic = panicClass(r) + ": " + fmt.Sprint(r)
				res.PanicSite = panicSite(string(debug.Stack()))
			}
		}()
		service.PrepForZeroHeightGenesis(cctx, w.a.k)
		gs := service.ExportGenesis(cctx, w.a.k)
		store := cctx.KVStore(w.a.app.GetKey(types.StoreKey))
		var keys [][]byte
		it := store.Iterator(nil, nil)
		for ; it.Valid(); it.Next() {
			keys = append(keys, append([]byte(nil), it.Key()...))
		}
		it.Close()
		for _, k := range keys {
			store.Delete(k)
		}
		// a restart goes through the genesis FILE: the JSON form written and read back by the
		// application's codec (when it can be read back at all - see D14; otherwise the exported
		// structure is imported as it is, so that the history can go on)
		if bz, err := w.a.app.AppCodec().MarshalJSON(gs); err == nil {
			var back types.GenesisState
			if w.a.app.AppCodec().UnmarshalJSON(bz, &back) == nil {
				gs = &back
			}
		}
		if rewrite {
			for i, j := 0, len(gs.Definitions)-1; i < j; i, j = i+1, j-1 {
				gs.Definitions[i], gs.Definitions[j] = gs.Definitions[j], gs.Definitions[i]
			}
			for i, j := 0, len(gs.Bindings)-1; i < j; i, j = i+1, j-1 {
				gs.Bindings[i], gs.Bindings[j] = gs.Bindings[j], gs.Bindings[i]
			}
			for i := range gs.Bindings {
				if gs.Bindings[i].Available {
					gs.Bindings[i].DisabledTime = time.Unix(0, 0).UTC()
				}
			}
		}
		service.InitGenesis(cctx, w.a.k, *gs)
		res.OK = true
	}()
	if res.OK {
		write()
	}
	res.Callbacks = w.cbLog
	w.cbLog = nil
	return
}

// ModOp is an operation performed by another module through the keeper API.
type ModOp struct {
	Op        string   `json:"op"` // create|pause|start|kill|update
	CtxID     string   `json:"ctx,omitempty"`
	Service   string   `json:"service,omitempty"`
	Providers []string `json:"providers,omitempty"` // hex
	Consumer  string   `json:"consumer,omitempty"`  // hex
	Input     string   `json:"input,omitempty"`
	FeeCap    int64    `json:"fee_cap,omitempty"`
	Timeout   int64    `json:"timeout,omitempty"`
	Super     bool     `json:"super,omitempty"`
	Repeated  bool     `json:"repeated,omitempty"`
	Freq      uint64   `json:"freq,omitempty"`
	Total     int64    `json:"total,omitempty"`
	Threshold uint32   `json:"threshold,omitempty"`
	Module    string   `json:"module,omitempty"`
}

func unhexAddrs(hs []string) []sdk.AccAddress {
	var out []sdk.AccAddress
	for _, h := range hs {
		out = append(out, sdk.AccAddress(unhex(h)))
	}
	return out
}

// DeliverModOp executes a keeper call the way a module's own message handler
// would: inside a cached context that is committed only on success.
func (w *World) DeliverModOp(op ModOp) (res StepResult) {
	w.cbLog = nil
	txHash := w.nextTxHash()
	res.TxHash, res.MsgIdx = hexs(txHash), 0
	cctx, write := w.curCtx().CacheContext()
	cctx = cctx.WithEventManager(sdk.NewEventManager())
	cctx = cctx.WithValue(types.TxHash, txHash).WithValue(types.MsgIndex, int64(0))
	k := w.a.k
	func() {
		defer func() {
			if r := recover(); r != nil {
				res.Panic = panicClass(r) + ": " + fmt.Sprint(r)
				res.PanicSite = panicSite(string(debug.Stack()))
			}
		}()
		var err error
		switch op.Op {
		case "create":
			var cap sdk.Coins
			if op.FeeCap > 0 {
				cap = sdk.NewCoins(sdk.NewCoin(denom, sdk.NewInt(op.FeeCap)))
			}
			var id tmbytes.HexBytes
			id, err = k.CreateRequestContext(cctx, op.Service, unhexAddrs(op.Providers), unhex(op.Consumer), op.Input,
				cap, op.Timeout, op.Super, op.Repeated, op.Freq, op.Total, types.RUNNING, op.Threshold, op.Module)
			if err == nil {
				res.NewCtxID = hexs(id)
			}
		case "create2":
			// a module that asks twice while it handles one message: both calls run under the same
			// transaction hash and message index (the second context takes the place of the first)
			var cap sdk.Coins
			if op.FeeCap > 0 {
				cap = sdk.NewCoins(sdk.NewCoin(denom, sdk.NewInt(op.FeeCap)))
			}
			var id tmbytes.HexBytes
			for i := 0; i < 2 && err == nil; i++ {
				id, err = k.CreateRequestContext(cctx, op.Service, unhexAddrs(op.Providers), unhex(op.Consumer), op.Input,
					cap, op.Timeout+int64(i), op.Super, op.Repeated, op.Freq+uint64(i), op.Total, types.RUNNING, op.Threshold, op.Module)
			}
			if err == nil {
				res.NewCtxID = hexs(id)
			}
		case "pause":
			err = k.PauseRequestContext(cctx, unhex(op.CtxID), unhex(op.Consumer))
		case "start":
			err = k.StartRequestContext(cctx, unhex(op.CtxID), unhex(op.Consumer))
		case "kill":
			err = k.KillRequestContext(cctx, unhex(op.CtxID), unhex(op.Consumer))
		case "update":
			var cap sdk.Coins
			if op.FeeCap > 0 {
				cap = sdk.NewCoins(sdk.NewCoin(denom, sdk.NewInt(op.FeeCap)))
			}
			err = k.UpdateRequestContext(cctx, unhex(op.CtxID), unhexAddrs(op.Providers), op.Threshold, cap,
				op.Timeout, op.Freq, op.Total, unhex(op.Consumer))
		default:
			err = fmt.Errorf("unknown modop %s", op.Op)
		}
		if err != nil {
			res.Err = err.Error()
			res.ErrCode = errCode(err)
			return
		}
		res.OK = true
	}()
	if res.OK {
		write()
		res.Events = convEvents(cctx.EventManager().Events())
		res.Callbacks = w.cbLog
	}
	w.cbLog = nil
	return
}

func sha256Sum(s string) []byte {
	h := sha256.Sum256([]byte(s))
	return h[:]
}

func hexs(b []byte) string { return hex.EncodeToString(b) }

func unhex(s string) []byte {
	b, err := hex.DecodeString(s)
	if err != nil {
		panic(err)
	}
	return b
}

func must(err error) {
	if err != nil {
		panic(err)
	}
}
