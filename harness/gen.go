package main

// Workload generation: actors, parameter sets, pricing texts and the random hostile
// history generator. Every choice comes from the run's PRNG.

import (
	"encoding/json"
	"fmt"
	authtypes "github.com/cosmos/cosmos-sdk/x/auth/types"
	"math/rand"
	"os"
	"sort"
	"strings"
	"time"

	sdk "github.com/cosmos/cosmos-sdk/types"

	"github.com/irismod/service/types"
)

type Actors struct {
	Owners    []sdk.AccAddress // 20 bytes, sign
	Consumers []sdk.AccAddress // 20 bytes, sign: rich, middling, poor
	Stranger  sdk.AccAddress
	ModCons   sdk.AccAddress   // consumer used by the verifmod double
	SignProv  []sdk.AccAddress // 20-byte providers that can respond
	OddProv   []sdk.AccAddress // providers of other lengths (never sign)
	Wallets   []sdk.AccAddress // withdrawal addresses
	All20     []sdk.AccAddress
}

func addr20(s string) sdk.AccAddress { return sdk.AccAddress(sha256Sum("actor-" + s)[:20]) }

func MakeActors() *Actors {
	a := &Actors{}
	for i := 1; i <= 3; i++ {
		o, c := addr20(fmt.Sprintf("owner%d", i)), addr20(fmt.Sprintf("consumer%d", i))
		// addresses at the edges of the byte range: a scan whose end key is "last byte + 1", or a
		// key that is cut at a zero byte, goes wrong only for such subjects
		switch i {
		case 2:
			o[19], c[19] = 0xff, 0xff
		case 3:
			o[19], c[0] = 0x00, 0xff
		}
		a.Owners = append(a.Owners, o)
		a.Consumers = append(a.Consumers, c)
	}
	a.Stranger = addr20("stranger")
	a.ModCons = addr20("modconsumer")
	p1, p2 := addr20("prov1"), addr20("prov2")
	p3 := sdk.AccAddress(append(append([]byte{}, sha256Sum("prov3")[:15]...), []byte(denom)...)) // 20 bytes ending in the denom
	p4 := sdk.AccAddress(append(append([]byte{}, p1[:19]...), 0x00))                             // differs from p1 in the last byte, ends in 0x00
	p19 := sdk.AccAddress(sha256Sum("prov19")[:19])                                              // 19 bytes
	q := sdk.AccAddress(append(append([]byte{}, p19...), 0x01))                                  // p19 followed by a byte that sorts before the denom
	pff := sdk.AccAddress(append([]byte{0xff}, sha256Sum("provff")[:19]...))                     // leading 0xff
	a.SignProv = []sdk.AccAddress{p1, p2, p3, p4, a.Owners[0], q, pff}
	a.OddProv = []sdk.AccAddress{
		append(sdk.AccAddress{}, p1[:13]...),                                                // 13-byte prefix of p1
		append(sdk.AccAddress{}, p2[:1]...),                                                 // 1-byte prefix of p2
		append(append(sdk.AccAddress{}, p1...), 'x'),                                        // 21-byte extension of p1
		append(append(sdk.AccAddress{}, p2...), []byte(denom)...),                           // p2 followed by the denom
		sdk.AccAddress(sha256Sum("odd32")),                                                  // 32 bytes
		append(append(sdk.AccAddress{}, sha256Sum("odd40")...), sha256Sum("odd40b")[:8]...), // 40 bytes
		sdk.AccAddress{0x00, 0x00, 0x01},                                                    // embedded zero bytes
		append(sdk.AccAddress{}, p3[:15]...),                                                // p3 without its "stake" tail
		p19,                                                                                 // 19-byte prefix of the signer provider q
		bech32Extension(p1),                                                                 // 24 bytes whose bech32 text starts with the whole bech32 text of p1
	}
	a.Wallets = []sdk.AccAddress{addr20("wallet1"), addr20("wallet2"), sdk.AccAddress(sha256Sum("wallet32")), sdk.AccAddress(sha256Sum("wallet7")[:7])}
	a.All20 = append(a.All20, a.Owners...)
	a.All20 = append(a.All20, a.Consumers...)
	a.All20 = append(a.All20, a.Stranger, a.ModCons)
	a.All20 = append(a.All20, a.SignProv[:4]...)
	a.All20 = append(a.All20, a.SignProv[5:]...)
	a.All20 = append(a.All20, a.Wallets[:2]...)
	return a
}

// FundAll registers every actor with the world. Consumer wealth is a parameter.
func (a *Actors) FundAll(r *Run, rich, mid, poor int64) {
	for i, o := range a.Owners {
		r.Fund(fmt.Sprintf("owner%d", i+1), o, 1_000_000_000)
	}
	amts := []int64{rich, mid, poor}
	for i, c := range a.Consumers {
		r.Fund(fmt.Sprintf("consumer%d", i+1), c, amts[i])
	}
	r.Fund("stranger", a.Stranger, 1_000_000)
	r.Fund("modconsumer", a.ModCons, mid)
	r.Fund("govacc", authtypes.NewModuleAddress("gov"), 5000) // another module's own account, paying for its contexts
	for i, p := range a.SignProv {
		if i != 4 {
			r.Fund(fmt.Sprintf("prov%d", i+1), p, 1000)
		}
	}
	for i, p := range a.OddProv {
		r.TrackOnly(fmt.Sprintf("odd%d", i+1), p)
		// an address that equals "provider bytes followed by the denom" would receive
		// coins if a key suffix were mistaken for part of the address
		r.TrackOnly(fmt.Sprintf("odd%d+denom", i+1), append(append(sdk.AccAddress{}, p...), []byte(denom)...))
	}
	for i, p := range a.SignProv {
		r.TrackOnly(fmt.Sprintf("sprov%d+denom", i+1), append(append(sdk.AccAddress{}, p...), []byte(denom)...))
	}
	for i, wa := range a.Wallets {
		r.TrackOnly(fmt.Sprintf("wallet%d", i+1), wa)
	}
}

var serviceNames = []string{"sv", "svc", "sv-c", "sv_c", "s" + strings.Repeat("v", 69), "Sv", "sV"}

const goodSchemas = `{"input":{"type":"object"},"output":{"type":"object"}}`

// a definition whose own output schema is strict: bodies that violate it are still
// well-formed responses in the sense of the module-wide output schema
const strictSchemas = `{"input":{"type":"object","properties":{"q":{"type":"string"}},"required":["q"]},"output":{"type":"object","properties":{"x":{"type":"integer"}},"required":["x"],"additionalProperties":false}}`

func someSchemas(rng *rand.Rand) string {
	if rng.Intn(3) == 0 {
		return strictSchemas
	}
	return goodSchemas
}

const goodInput = `{"header":{},"body":{}}`
const goodOutput = `{"header":{},"body":{}}`
const goodResult = `{"code":200,"message":""}`

var malformedOutputs = []string{`{"body":{}}`, `[]`, `"x"`, `{"header":1}`, `{"header":{},"body":3}`, `7`, `{"header":[]}`,
	`{"header":{},"body":null}`, `{"Header":{}}`, `{"header":null}`, `{"HEADER":{},"Body":{}}`, `{"header":{},"body":[]}`, `{"header":"x"}`, `null`, `{}`,
	`{"header":{},"body":"s"}`, `{"header":{},"body":1.5}`, `{"header":{},"body":false}`, `{"header":null,"body":{}}`}
var goodOutputs = []string{goodOutput, `{"header":{}}`, `{"header":{"a":1},"body":{"b":[1,2]},"extra":true}`, `{"header":{},"body":{"x":"not-an-integer"}}`, `{"header":{},"body":{"x":1}}`, `{"header":{},"body":{"y":[]}}`,
	`{"header":{},"body":{"n":1e400}}`, `{"header":{"k":` + strings.Repeat("9", 400) + `},"body":{}}`, `{"header":{},"body":{"f":-0.000000000000000000000000000000000001e-400}}`,
	`{"header":{},"body":{"blob":"` + strings.Repeat("b", 5000) + `"}}`,
	"{\"header\":{},\"body\":{}}\n", " \t{\"header\":{} ,\n \"body\":{}}"} // the last one is longer than the default tx_size_limit parameter, which limits nothing here

func pick(rng *rand.Rand, n int) int { return rng.Intn(n) }

// RandParams draws a legal parameter set including the edges.
func RandParams(rng *rand.Rand) types.Params {
	p := types.DefaultParams()
	p.MaxRequestTimeout = []int64{1, 2, 3, 3, 5, 8, 20, 100}[pick(rng, 8)]
	p.MinDepositMultiple = []int64{1, 2, 10, 200}[pick(rng, 4)]
	md := []int64{0, 1, 50, 6000}[pick(rng, 4)]
	if md == 0 {
		p.MinDeposit = sdk.Coins{}
	} else {
		p.MinDeposit = sdk.NewCoins(sdk.NewCoin(denom, sdk.NewInt(md)))
	}
	p.ServiceFeeTax = []sdk.Dec{sdk.ZeroDec(), sdk.NewDecWithPrec(1, 1), sdk.NewDecWithPrec(5, 1), sdk.NewDecWithPrec(5, 2), sdk.OneDec().Sub(sdk.SmallestDec()),
		sdk.NewDecWithPrec(125, 5), sdk.MustNewDecFromStr("0.333333333333333333"), sdk.MustNewDecFromStr("0.000049999999999999")}[pick(rng, 8)]
	p.SlashFraction = []sdk.Dec{sdk.ZeroDec(), sdk.NewDecWithPrec(1, 3), sdk.NewDecWithPrec(5, 1), sdk.OneDec(), sdk.NewDecWithPrec(1, 1), sdk.NewDecWithPrec(34, 2)}[pick(rng, 6)]
	durs := []time.Duration{1, 5 * time.Second, 10 * time.Second, 15 * time.Second, time.Hour}
	p.ComplaintRetrospect = durs[pick(rng, len(durs))]
	p.ArbitrationTimeLimit = durs[pick(rng, len(durs))]
	if rng.Intn(12) == 0 {
		// each period fits a duration, their sum does not
		p.ComplaintRetrospect, p.ArbitrationTimeLimit = 200*365*24*time.Hour, 200*365*24*time.Hour
	}
	p.TxSizeLimit = []uint64{4000, 4000, 16, 1, 100000}[pick(rng, 5)]
	return p
}

var discounts = []string{"0.1", "0.5", "0.9", "0.999", "0.000000000000000001", "0.25", "0.3333", "0.8", "0.7", "0.3"}

// RandPricing builds a pricing text. Time windows are multiples of 5 s from genesis so
// that block times land exactly on, just inside and just outside the boundaries.
func RandPricing(rng *rand.Rand, base string) string {
	var sb strings.Builder
	fmt.Fprintf(&sb, `{"price":"%s%s"`, base, denom)
	if rng.Intn(12) == 0 {
		// an open-ended promotion (years 0001 .. 9999), possibly with a volume tier
		// (with a zone offset the same calendar fields denote an instant outside 0001 .. 9999)
		fmt.Fprintf(&sb, `,"promotions_by_time":[{"start_time":"%s","end_time":"%s","discount":"%s"}]}`,
			[]string{"0001-01-01T00:00:00Z", "2030-01-01T00:00:10Z", "2262-04-11T23:47:16Z", "0001-01-01T00:00:00+08:00", "0001-01-01T00:00:00-08:00"}[rng.Intn(5)],
			[]string{"9999-12-31T23:59:59Z", "9999-12-31T23:59:59Z", "9999-12-31T23:59:59-05:00", "9999-12-31T23:59:59+05:00"}[rng.Intn(4)], discounts[pick(rng, len(discounts))])
		return sb.String()
	}
	both := rng.Intn(4) == 0
	if both || rng.Intn(3) == 0 {
		n := 1 + rng.Intn(2)
		sb.WriteString(`,"promotions_by_time":[`)
		start := int64(5 * (1 + rng.Intn(4)))
		for i := 0; i < n; i++ {
			end := start + int64(5*(1+rng.Intn(4)))
			if i > 0 {
				sb.WriteString(",")
			}
			fmt.Fprintf(&sb, `{"start_time":"%s","end_time":"%s","discount":"%s"}`,
				genesisTime.Add(time.Duration(start)*time.Second).Format(time.RFC3339), genesisTime.Add(time.Duration(end)*time.Second).Format(time.RFC3339), discounts[pick(rng, len(discounts))])
			start = end + int64(5*rng.Intn(2))
		}
		sb.WriteString("]")
	}
	if both || rng.Intn(3) == 0 {
		n := 1 + rng.Intn(3)
		sb.WriteString(`,"promotions_by_volume":[`)
		v := 1 + rng.Intn(2)
		used := map[string]bool{}
		for i := 0; i < n; i++ {
			if i > 0 {
				sb.WriteString(",")
			}
			d := discounts[pick(rng, len(discounts))]
			for used[fmt.Sprint(v, d)] { // the schema wants the items pairwise different
				v++
			}
			used[fmt.Sprint(v, d)] = true
			fmt.Fprintf(&sb, `{"volume":%d,"discount":"%s"}`, v, d)
			v += rng.Intn(3) // equal thresholds are allowed: the last listed tier reached wins
		}
		sb.WriteString("]")
	}
	sb.WriteString("}")
	return sb.String()
}

var optionVariants = []string{"{}", "{}", `{"a":1}`, `[1,2]`, `"x"`, `{"nested":{"k":[true,null]}}`}

var basePrices = []string{"0", "1", "2", "3", "10", "100", "0.5", "1.9", "2.000000000000000001", "7", "5", "11", "13", "99", "1000", "100000", "123457"}

func coins(n int64) sdk.Coins {
	if n == 0 {
		return sdk.Coins{}
	}
	return sdk.NewCoins(sdk.NewCoin(denom, sdk.NewInt(n)))
}

// Gen is the random hostile history generator.
type Gen struct {
	r        *Run
	rng      *rand.Rand
	A        *Actors
	p        types.Params
	pastReqs []string // IDs of requests ever seen (for late/duplicate responses)
	modCtxs  []string
}

func NewGen(r *Run, a *Actors) *Gen {
	return &Gen{r: r, rng: r.rng, A: a, p: r.w.params}
}

func (g *Gen) any20() sdk.AccAddress { return g.A.All20[pick(g.rng, len(g.A.All20))] }
func (g *Gen) owner() sdk.AccAddress { return g.A.Owners[pick(g.rng, len(g.A.Owners))] }
func (g *Gen) consumer() sdk.AccAddress {
	switch g.rng.Intn(8) {
	case 0:
		return g.owner() // an owner consuming (possibly its own providers' service)
	case 1:
		return g.A.SignProv[pick(g.rng, 4)] // a provider consuming
	}
	return g.A.Consumers[pick(g.rng, len(g.A.Consumers))]
}
func (g *Gen) provider() sdk.AccAddress {
	if g.rng.Intn(4) == 0 {
		return g.A.OddProv[pick(g.rng, len(g.A.OddProv))]
	}
	return g.A.SignProv[pick(g.rng, len(g.A.SignProv))]
}
func (g *Gen) service() string {
	s := g.r.pre
	if len(s.Defs) > 0 && g.rng.Intn(8) != 0 {
		names := sortedKeys(s.Defs)
		return names[pick(g.rng, len(names))]
	}
	return serviceNames[pick(g.rng, len(serviceNames))]
}

func (g *Gen) minDepositFor(pricing string) int64 {
	op, err := ParsePricingText(pricing)
	if err != nil {
		return 0
	}
	return MinDeposit(g.p, op).Int64()
}

func (g *Gen) someBinding() (types.ServiceBinding, bool) {
	s := g.r.pre
	if len(s.Bindings) == 0 {
		return types.ServiceBinding{}, false
	}
	ks := sortedKeys(s.Bindings)
	return s.Bindings[ks[pick(g.rng, len(ks))]], true
}

func (g *Gen) someContext() (string, types.RequestContext, bool) {
	s := g.r.pre
	if len(s.Contexts) == 0 {
		return "", types.RequestContext{}, false
	}
	ks := sortedKeys(s.Contexts)
	k := ks[pick(g.rng, len(ks))]
	return k, s.Contexts[k], true
}

// wrongSigner returns some 20-byte account other than a.
func (g *Gen) wrongSigner(a sdk.AccAddress) sdk.AccAddress {
	// the rightful party's payee is the most tempting wrong signer
	if wa, ok := g.r.pre.Withdraw[hexs(a)]; ok && g.rng.Intn(3) == 0 {
		if x := unhex(wa); len(x) == 20 && !sdk.AccAddress(x).Equals(a) {
			return sdk.AccAddress(x)
		}
	}
	for {
		x := g.any20()
		if !x.Equals(a) {
			return x
		}
	}
}

func (g *Gen) amountAround(n int64) int64 {
	v := n + []int64{-1, 0, 0, 1, 5, 1000, -n}[pick(g.rng, 7)]
	if v < 0 {
		v = 0
	}
	return v
}

// Setup phase: a few definitions and bindings so that the history has material.
func (g *Gen) Bootstrap() {
	nd := 1 + g.rng.Intn(3)
	for i := 0; i < nd; i++ {
		g.opDefine()
	}
	nb := 2 + g.rng.Intn(5)
	for i := 0; i < nb; i++ {
		g.opBind(true)
	}
}

func (g *Gen) opDefine() {
	name := serviceNames[pick(g.rng, len(serviceNames))]
	author := g.any20()
	tags := []string{"t1", "t2"}[:g.rng.Intn(3)]
	switch g.rng.Intn(8) {
	case 0:
		tags = []string{"oracle", "oracle "} // distinct as given, equal once trimmed
	case 1:
		tags = []string{" "}
	case 2:
		tags = []string{"a", "a\t", " a"}
	}
	desc, adesc := "desc", "author"
	if g.rng.Intn(6) == 0 {
		desc = strings.Repeat("d", 278+g.rng.Intn(3)-1) + "\xff" // at the length limit, with a byte that is not valid UTF-8
		if len(desc) > 280 {
			desc = desc[len(desc)-280:]
		}
		adesc = "\xfe\xff" + strings.Repeat("a", 278)
	}
	g.r.Msg(types.NewMsgDefineService(name, desc, tags, author, adesc, someSchemas(g.rng)), "")
}

func (g *Gen) opBind(friendly bool) {
	svc := g.service()
	prov := g.provider()
	owner := g.owner()
	note := ""
	if o, ok := g.r.pre.ProvOwner[hexs(prov)]; ok && (friendly || g.rng.Intn(3) != 0) {
		owner = sdk.AccAddress(unhex(o))
	} else if ok {
		note = "bind-foreign-provider"
	}
	pricing := RandPricing(g.rng, basePrices[pick(g.rng, len(basePrices))])
	min := g.minDepositFor(pricing)
	dep := min + []int64{0, 0, 1, 10, 1000, 100000}[pick(g.rng, 6)]
	if !friendly {
		dep = g.amountAround(min)
	}
	qos := uint64(1 + g.rng.Intn(int(g.p.MaxRequestTimeout)))
	if !friendly && g.rng.Intn(6) == 0 {
		qos = uint64(g.p.MaxRequestTimeout) + uint64(g.rng.Intn(2))
	}
	g.r.Msg(types.NewMsgBindService(svc, prov, coins(dep), pricing, qos, optionVariants[pick(g.rng, len(optionVariants))], owner), note)
}

func (g *Gen) opUpdateBinding() {
	b, ok := g.someBinding()
	if !ok {
		g.opBind(true)
		return
	}
	owner := b.Owner
	note := ""
	if g.rng.Intn(5) == 0 || len(owner) != 20 {
		owner = g.wrongSigner(b.Owner)
		note = "wrong-signer"
	}
	var dep sdk.Coins
	pricing := ""
	qos := uint64(0)
	switch g.rng.Intn(5) {
	case 0:
		dep = coins(int64(1 + g.rng.Intn(500)))
	case 1:
		pricing = RandPricing(g.rng, basePrices[pick(g.rng, len(basePrices))])
	case 2:
		pricing = RandPricing(g.rng, basePrices[pick(g.rng, len(basePrices))])
		need := g.minDepositFor(pricing) - coinsAmt(b.Deposit).Int64()
		if need < 0 {
			need = 0
		}
		dep = coins(g.amountAround(need))
	case 3:
		qos = uint64(1 + g.rng.Intn(int(g.p.MaxRequestTimeout)+1))
	case 4:
		// nothing but options
	}
	if g.rng.Intn(4) == 0 {
		if tw := tweakPricing(g.rng, b.Pricing); tw != "" {
			pricing, note = tw, strings.TrimSpace(note+" one-element-pricing-change")
		}
	}
	g.r.Msg(types.NewMsgUpdateServiceBinding(b.ServiceName, b.Provider, dep, pricing, qos, optionVariants[pick(g.rng, len(optionVariants))], owner), note)
}

func (g *Gen) opDisable() {
	b, ok := g.someBinding()
	if !ok {
		return
	}
	owner, note := b.Owner, ""
	if g.rng.Intn(4) == 0 || len(owner) != 20 {
		owner, note = g.wrongSigner(b.Owner), "wrong-signer"
	}
	g.r.Msg(types.NewMsgDisableServiceBinding(b.ServiceName, b.Provider, owner), note)
}

func (g *Gen) opEnable() {
	b, ok := g.someBinding()
	if !ok {
		return
	}
	owner, note := b.Owner, ""
	if g.rng.Intn(4) == 0 || len(owner) != 20 {
		owner, note = g.wrongSigner(b.Owner), "wrong-signer"
	}
	need := g.minDepositFor(b.Pricing) - coinsAmt(b.Deposit).Int64()
	if need < 0 {
		need = 0
	}
	g.r.Msg(types.NewMsgEnableServiceBinding(b.ServiceName, b.Provider, coins(g.amountAround(need)), owner), note)
}

func (g *Gen) opRefund() {
	b, ok := g.someBinding()
	if !ok {
		return
	}
	owner, note := b.Owner, ""
	if g.rng.Intn(4) == 0 || len(owner) != 20 {
		owner, note = g.wrongSigner(b.Owner), "wrong-signer"
	}
	g.r.Msg(types.NewMsgRefundServiceDeposit(b.ServiceName, b.Provider, owner), note)
}

func (g *Gen) opSetWithdraw() {
	owner := g.owner()
	var wa sdk.AccAddress
	switch g.rng.Intn(4) {
	case 0:
		wa = g.A.Wallets[pick(g.rng, len(g.A.Wallets))]
	case 1:
		wa = owner
	case 2:
		wa = g.any20()
	case 3:
		wa = g.A.Wallets[0]
	}
	if g.rng.Intn(8) == 0 {
		wa = g.r.w.actors[[]string{"feecollector", "escrow", "deposits"}[g.rng.Intn(3)]] // a module account as wallet
	}
	if cur, ok := g.r.pre.Withdraw[hexs(owner)]; ok && g.rng.Intn(3) == 0 {
		_ = cur
		wa = owner // back to the owner itself after another address was set
	}
	g.r.Msg(types.NewMsgSetWithdrawAddress(owner, wa), "")
}

func (g *Gen) providersFor(svc string) []sdk.AccAddress {
	s := g.r.pre
	var bound []sdk.AccAddress
	for _, bk := range sortedKeys(s.Bindings) {
		b := s.Bindings[bk]
		if b.ServiceName == svc {
			bound = append(bound, b.Provider)
		}
	}
	n := 1 + g.rng.Intn(3)
	var out []sdk.AccAddress
	seen := map[string]bool{}
	for i := 0; i < n+2 && len(out) < n; i++ {
		var p sdk.AccAddress
		if len(bound) > 0 && g.rng.Intn(6) != 0 {
			p = bound[pick(g.rng, len(bound))]
		} else {
			p = g.provider()
		}
		if !seen[hexs(p)] {
			seen[hexs(p)] = true
			out = append(out, p)
		}
	}
	return out
}

func (g *Gen) capFor(svc string, provs []sdk.AccAddress) int64 {
	s := g.r.pre
	max := int64(1)
	for _, p := range provs {
		if b, ok := s.Bindings[bkey(svc, p)]; ok {
			if op, err := ParsePricingText(b.Pricing); err == nil && op.Base.IsInt64() && op.Base.Int64() > max {
				max = op.Base.Int64()
			}
		}
	}
	return max
}

func (g *Gen) opCall() {
	svc := g.service()
	provs := g.providersFor(svc)
	cons := g.consumer()
	cap := g.capFor(svc, provs)
	switch g.rng.Intn(6) {
	case 0:
		cap = cap - 1
	case 1:
		cap = 1
	case 2:
		cap = cap * 2
	}
	if cap < 1 {
		cap = 1
	}
	timeout := int64(1 + g.rng.Intn(int(minI64(g.p.MaxRequestTimeout, 6))))
	if g.rng.Intn(10) == 0 {
		timeout = g.p.MaxRequestTimeout + int64(g.rng.Intn(2))
	}
	repeated := g.rng.Intn(2) == 0
	freq := uint64(0)
	total := int64(0)
	if repeated {
		switch g.rng.Intn(4) {
		case 0:
			freq = 0 // defaults to timeout
		case 1:
			freq = uint64(timeout)
		default:
			freq = uint64(timeout) + uint64(g.rng.Intn(3))
		}
		if g.rng.Intn(12) == 0 {
			freq = []uint64{255, 256, 767, 2550, 65536}[pick(g.rng, 5)]
		}
		total = []int64{1, 2, 3, -1, 5}[pick(g.rng, 5)]
	}
	super := g.rng.Intn(8) == 0
	g.r.Msg(types.NewMsgCallService(svc, provs, cons, goodInput, coins(cap), timeout, super, repeated, freq, total), "")
	// a transaction may carry several calls: same tx hash, next message index
	for i := 0; i < 2 && g.rng.Intn(4) == 0; i++ {
		g.r.MsgTx(types.NewMsgCallService(svc, provs, cons, goodInput, coins(cap), timeout, super, repeated, freq, total), "same-transaction", true)
	}
}

func (g *Gen) rememberRequests() {
	for _, id := range g.r.pre.PendingIDs() {
		found := false
		for _, p := range g.pastReqs {
			if p == id {
				found = true
				break
			}
		}
		if !found {
			g.pastReqs = append(g.pastReqs, id)
		}
	}
	if len(g.pastReqs) > 64 {
		g.pastReqs = g.pastReqs[len(g.pastReqs)-64:]
	}
}

func (g *Gen) opRespond() {
	s := g.r.pre
	g.rememberRequests()
	var rid string
	note := ""
	pend := s.PendingIDs()
	switch {
	case len(pend) > 0 && g.rng.Intn(6) != 0:
		rid = pend[pick(g.rng, len(pend))]
	case len(g.pastReqs) > 0 && g.rng.Intn(4) != 0:
		rid = g.pastReqs[pick(g.rng, len(g.pastReqs))]
		note = "maybe-stale"
	default:
		b := make([]byte, 58)
		g.rng.Read(b)
		rid = hexs(b)
		note = "unknown-id"
	}
	var prov sdk.AccAddress
	if r, ok := s.Requests[rid]; ok {
		prov = r.Provider
	} else if le := g.r.mon.reqs[rid]; le != nil {
		prov = unhex(le.Provider)
	} else {
		prov = g.A.SignProv[0]
	}
	if (len(prov) != 20 && g.rng.Intn(2) == 0) || g.rng.Intn(7) == 0 {
		prov = g.wrongSigner(prov)
		note += " wrong-signer"
	} else if len(prov) != 20 {
		note += " odd-length-provider-signs"
	}
	result, output := goodResult, goodOutputs[pick(g.rng, len(goodOutputs))]
	switch g.rng.Intn(7) {
	case 0:
		output = malformedOutputs[pick(g.rng, len(malformedOutputs))]
		note += " malformed"
	case 1:
		result, output = `{"code":400,"message":"no"}`, ""
	case 2:
		result, output = `{"code":500,"message":"err"}`, ""
	}
	g.r.Msg(types.NewMsgRespondService(unhex(rid), prov, result, output), strings.TrimSpace(note))
}

func (g *Gen) opCtxControl(kind int) {
	id, rc, ok := g.someContext()
	if !ok {
		return
	}
	cons, note := sdk.AccAddress(rc.Consumer), ""
	if g.rng.Intn(5) == 0 {
		cons, note = g.wrongSigner(rc.Consumer), "wrong-signer"
	}
	switch kind {
	case 0:
		g.r.Msg(types.NewMsgPauseRequestContext(unhex(id), cons), note)
	case 1:
		g.r.Msg(types.NewMsgStartRequestContext(unhex(id), cons), note)
	case 2:
		g.r.Msg(types.NewMsgKillRequestContext(unhex(id), cons), note)
	case 3:
		var provs []sdk.AccAddress
		var cap sdk.Coins
		timeout := int64(0)
		freq := uint64(0)
		total := int64(0)
		switch g.rng.Intn(6) {
		case 0:
			provs = g.providersFor(rc.ServiceName)
		case 1:
			cap = coins(int64(1 + g.rng.Intn(20)))
		case 2:
			timeout = int64(1 + g.rng.Intn(int(g.p.MaxRequestTimeout)))
		case 3:
			freq = uint64(rc.Timeout) + uint64(g.rng.Intn(3))
		case 4:
			total = []int64{-1, 1, 2, 3, 6, int64(rc.BatchCounter), int64(rc.BatchCounter) + 1}[pick(g.rng, 7)]
		case 5:
			timeout = int64(1 + g.rng.Intn(int(g.p.MaxRequestTimeout)))
			freq = uint64(timeout) + uint64(g.rng.Intn(2))
		}
		g.r.Msg(types.NewMsgUpdateRequestContext(unhex(id), provs, cap, timeout, freq, total, cons), note)
	}
}

func (g *Gen) opWithdraw() {
	s := g.r.pre
	owner := g.owner()
	var prov sdk.AccAddress
	note := ""
	if g.rng.Intn(2) == 0 {
		// a provider, usually one of the owner's
		var mine, others []string
		for _, p := range sortedKeys(s.ProvOwner) {
			if s.ProvOwner[p] == hexs(owner) {
				mine = append(mine, p)
			} else {
				others = append(others, p)
			}
		}
		switch {
		case len(mine) > 0 && g.rng.Intn(5) != 0:
			prov = unhex(mine[pick(g.rng, len(mine))])
		case len(others) > 0:
			prov = unhex(others[pick(g.rng, len(others))])
			note = "wrong-signer"
		default:
			prov = g.provider()
		}
	}
	if prov == nil && g.rng.Intn(3) == 0 {
		// "all my providers" with the provider field explicitly encoded as zero-length bytes
		// (what amino JSON "provider":"" or a hand-built transaction gives): decodes to an
		// empty, non-nil address
		bz, err := types.NewMsgWithdrawEarnedFees(owner, nil).Marshal()
		must(err)
		g.r.MsgRaw(types.TypeMsgWithdrawEarnedFees, append(bz, 0x12, 0x00), "explicit empty provider field")
		return
	}
	g.r.Msg(types.NewMsgWithdrawEarnedFees(owner, prov), note)
}

// opSwapped: binding messages whose provider and owner fields are filled the other way
// round, signed by the provider account of a binding that belongs to another owner.
func (g *Gen) opSwapped() {
	s := g.r.pre
	var cands []types.ServiceBinding
	for _, bk := range sortedKeys(s.Bindings) {
		b := s.Bindings[bk]
		if len(b.Provider) == 20 && len(b.Owner) == 20 && !b.Provider.Equals(b.Owner) {
			cands = append(cands, b)
		}
	}
	if len(cands) == 0 {
		return
	}
	b := cands[pick(g.rng, len(cands))]
	note := "wrong-signer: provider and owner fields swapped"
	switch g.rng.Intn(5) {
	case 0:
		g.r.Msg(types.NewMsgDisableServiceBinding(b.ServiceName, b.Owner, b.Provider), note)
	case 1:
		g.r.Msg(types.NewMsgEnableServiceBinding(b.ServiceName, b.Owner, nil, b.Provider), note)
	case 2:
		g.r.Msg(types.NewMsgRefundServiceDeposit(b.ServiceName, b.Owner, b.Provider), note)
	case 3:
		g.r.Msg(types.NewMsgUpdateServiceBinding(b.ServiceName, b.Owner, coins(1), "", 0, "{}", b.Provider), note)
	case 4:
		g.r.Msg(types.NewMsgWithdrawEarnedFees(b.Provider, b.Owner), note)
	}
}

// opBankSend: ordinary bank transfers between the actors, and attempts to pay into the
// module's own accounts (which the host's bank module blocks).
func (g *Gen) opBankSend() {
	from := g.A.All20[pick(g.rng, len(g.A.All20))]
	var to sdk.AccAddress
	note := ""
	switch g.rng.Intn(4) {
	case 0:
		to, note = g.r.w.actors[[]string{"escrow", "deposits", "feecollector"}[g.rng.Intn(3)]], "transfer into a module account"
	default:
		to = g.A.All20[pick(g.rng, len(g.A.All20))]
	}
	g.r.Send(from, to, int64(1+g.rng.Intn(20)), note)
}

func (g *Gen) opBlock() {
	dts := []time.Duration{5 * time.Second, 5 * time.Second, 5 * time.Second, time.Second, 10 * time.Second, 1, 0}
	dt := dts[pick(g.rng, len(dts))]
	s := g.r.pre
	if g.rng.Intn(6) == 0 {
		// jump to an interesting instant: a binding's refundable time (+-1ns)
		var cands []time.Time
		for _, bk := range sortedKeys(s.Bindings) {
			b := s.Bindings[bk]
			if !b.Available && coinsAmt(b.Deposit).IsPositive() {
				cands = append(cands, b.DisabledTime.Add(g.p.ArbitrationTimeLimit).Add(g.p.ComplaintRetrospect))
			}
		}
		if len(cands) > 0 {
			tgt := cands[pick(g.rng, len(cands))].Add(time.Duration(g.rng.Intn(3) - 1))
			if d := tgt.Sub(g.r.w.now); d > 0 {
				dt = d
			}
		}
	}
	g.r.Block(dt)
}

func (g *Gen) opModCreate() {
	svc := g.service()
	provs := g.providersFor(svc)
	var ph []string
	for _, p := range provs {
		ph = append(ph, hexs(p))
	}
	timeout := int64(1 + g.rng.Intn(int(g.p.MaxRequestTimeout)))
	op := ModOp{Op: "create", Service: svc, Providers: ph, Consumer: hexs(g.A.ModCons), Input: goodInput,
		FeeCap: g.capFor(svc, provs) + int64(g.rng.Intn(2)), Timeout: timeout, Repeated: g.rng.Intn(2) == 0,
		Threshold: uint32(1 + g.rng.Intn(len(provs))), Module: verifModule}
	if g.rng.Intn(3) == 0 {
		op.Consumer = hexs(g.A.Consumers[2]) // the poor consumer
	} else if g.rng.Intn(5) == 0 {
		op.Consumer = hexs(authtypes.NewModuleAddress("gov")) // a module paying from its own module account
	}
	if g.rng.Intn(12) == 0 {
		op.Op = "create2"
	}
	if op.Repeated {
		op.Freq = uint64(timeout) + uint64(g.rng.Intn(3))
		op.Total = []int64{1, 2, 3, -1}[pick(g.rng, 4)]
	}
	if g.rng.Intn(6) == 0 {
		op.Super = true // a module may ask in super mode: no fee is stamped, nothing may be charged
	}
	if g.rng.Intn(6) == 0 {
		op.Module = halfModule // registered a response callback only: must be refused
		op.Consumer = hexs(g.A.Consumers[2])
	}
	res := g.r.Mod(op, "")
	if res.OK {
		g.modCtxs = append(g.modCtxs, res.NewCtxID)
	}
}

func (g *Gen) opModControl() {
	s := g.r.pre
	var ids []string
	for _, id := range sortedKeys(s.Contexts) {
		if s.Contexts[id].ModuleName == verifModule {
			ids = append(ids, id)
		}
	}
	if len(ids) == 0 {
		g.opModCreate()
		return
	}
	id := ids[pick(g.rng, len(ids))]
	rc := s.Contexts[id]
	op := ModOp{CtxID: id, Consumer: hexs(rc.Consumer)}
	switch g.rng.Intn(5) {
	case 0:
		op.Op = "pause"
	case 1:
		op.Op = "start"
	case 2:
		op.Op = "kill"
	case 3:
		op.Op = "update"
		op.Threshold = uint32(1 + g.rng.Intn(len(rc.Providers)))
	case 4:
		op.Op = "update"
		op.Total = []int64{-1, 2, 4}[pick(g.rng, 3)]
	}
	if op.Op == "update" && g.rng.Intn(3) == 0 {
		// narrow (or replace) the provider list together with the threshold
		ps := g.providersFor(rc.ServiceName)
		if g.rng.Intn(2) == 0 {
			ps = ps[:1]
		}
		op.Providers = provHex(ps)
		op.Threshold = uint32(1 + g.rng.Intn(len(ps)))
	}
	g.r.Mod(op, "")
	// the same operation attempted by the consumer through the message path must fail
	if g.rng.Intn(3) == 0 {
		g.r.Msg(types.NewMsgPauseRequestContext(unhex(id), rc.Consumer), "module-context-via-message")
	}
}

func (g *Gen) opModSvcCall() {
	if !g.r.w.hasModSvc {
		// the name is reserved by the module although the host never installed its binding:
		// users may define it, nobody may bind it - not even by naming the module's provider
		if _, ok := g.r.pre.Defs[modSvcName]; !ok {
			g.r.Msg(types.NewMsgDefineService(modSvcName, "squat", nil, g.any20(), "x", goodSchemas), "define the reserved name")
		}
		prov := g.r.w.a.modSvcProvider
		if g.rng.Intn(2) == 0 {
			prov = g.provider()
		}
		g.r.Msg(types.NewMsgBindService(modSvcName, prov, coins(100000), price("1"), 1, "{}", g.owner()), "bind the reserved service")
		return
	}
	if g.rng.Intn(4) == 0 {
		g.r.SetModSvcBehaviour(ModSvcBehaviour(g.rng.Intn(3)))
	}
	cons := g.consumer()
	cap := int64(1 + g.rng.Intn(12))
	g.r.Msg(types.NewMsgCallService(modSvcName, []sdk.AccAddress{g.r.w.a.modSvcProvider}, cons, `{"header":{},"body":{"pair":"a-b"}}`, coins(cap), 1, false, false, 0, 0), "module-service")
}

// opInvalidShape sends messages that stateless or stateful validation must refuse (if some
// validation rule is lost they reach the keeper, and the monitors judge what happens then).
func (g *Gen) opInvalidShape() {
	svc := g.service()
	cons := g.consumer()
	provs := g.providersFor(svc)
	p0 := provs[0]
	call := func(ps []sdk.AccAddress, in string, cap sdk.Coins, timeout int64, rep bool, freq uint64, total int64, note string) {
		g.r.Msg(types.NewMsgCallService(svc, ps, cons, in, cap, timeout, false, rep, freq, total), "invalid: "+note)
	}
	b, hasB := g.someBinding()
	id, rc, hasCtx := g.someContext()
	switch g.rng.Intn(22) {
	case 0:
		call([]sdk.AccAddress{p0, p0}, goodInput, coins(5), 2, false, 0, 0, "duplicate providers")
	case 1:
		call(provs, goodInput, coins(5), 0, false, 0, 0, "timeout 0")
	case 2:
		switch g.rng.Intn(3) {
		case 0:
			call(provs, goodInput, coins(5), -1, true, 1, 2, "negative timeout")
		case 1:
			call(provs, goodInput, coins(5), -1, false, 0, 0, "negative timeout, one-shot")
		case 2:
			call(provs, goodInput, coins(5), -3, true, 0, 2, "negative timeout, default frequency")
		}
	case 3:
		call(provs, goodInput, coins(5), 3, true, 2, 2, "frequency below timeout")
	case 4:
		call(provs, goodInput, coins(5), 2, true, 2, 0, "repeated with total 0")
	case 5:
		call(provs, goodInput, coins(5), 2, true, 2, -2, "total -2")
	case 6:
		eleven := append(append([]sdk.AccAddress{}, g.A.SignProv[:4]...), g.A.OddProv[:7]...)
		call(eleven, goodInput, coins(5), 2, false, 0, 0, "eleven providers")
	case 7:
		call(provs, []string{"", "not json", "[]", `{"body":{}}`, `{"header":1}`}[g.rng.Intn(5)], coins(5), 2, false, 0, 0, "bad input")
	case 8:
		call(provs, goodInput, sdk.Coins{sdk.Coin{Denom: denom, Amount: sdk.ZeroInt()}}, 2, false, 0, 0, "zero coin in the cap")
	case 9:
		call(nil, goodInput, coins(5), 2, false, 0, 0, "no providers")
	case 10:
		g.r.Msg(types.NewMsgBindService(svc, g.provider(), coins(100000), price("1"), 0, "{}", g.owner()), "invalid: qos 0")
	case 11:
		bad := badPricings
		_ = []string{
			`{"price":"1stake","promotions_by_time":[{"start_time":"2030-01-01T00:00:20Z","end_time":"2030-01-01T00:00:10Z","discount":"0.5"}]}`,
			`{"price":"1stake","promotions_by_time":[{"start_time":"2030-01-01T00:00:10Z","end_time":"2030-01-01T00:00:30Z","discount":"0.5"},{"start_time":"2030-01-01T00:00:20Z","end_time":"2030-01-01T00:00:40Z","discount":"0.6"}]}`,
			`{"price":"1stake","promotions_by_volume":[{"volume":5,"discount":"0.5"},{"volume":2,"discount":"0.6"}]}`,
			`{"price":"1stake","promotions_by_volume":[{"volume":0,"discount":"0.5"}]}`,
			`{"price":"1stake","promotions_by_volume":[{"volume":2,"discount":"1.0"}]}`,
			`{"price":"1stake","promotions_by_volume":[{"volume":2,"discount":"0"}]}`,
			`{"price":"1stake","promotions_by_volume":[{"volume":2,"discount":"1.5"}]}`,
			`{"price":"100stake","promotions_by_volume":[{"volume":5,"discount":"0.9"},{"volume":20,"discount":"0.5"},{"volume":10,"discount":"0.8"}]}`,
			`{"price":"100stake","promotions_by_volume":[{"volume":1,"discount":"10.5"}]}`, `{"price":"100stake","promotions_by_time":[{"start_time":"2030-01-01T00:00:00Z","end_time":"2030-01-02T00:00:00Z","discount":"20.25"}]}`,
			`{"price":"-1stake"}`, `{"price":"1"}`, `{"price":"1stake","extra":1}`, `{"price":"1stake","promotions_by_volume":[{"volume":2,"discount":"0.5"},{"volume":2,"discount":"0.5"}]}`,
		}
		g.r.Msg(types.NewMsgBindService(svc, g.provider(), coins(100000), bad[g.rng.Intn(len(bad))], 1, "{}", g.owner()), "invalid: pricing")
	case 12:
		g.r.Msg(types.NewMsgBindService(svc, g.provider(), coins(100000), price("1"), 1, "not json", g.owner()), "invalid: options")
	case 13:
		g.r.Msg(types.NewMsgDefineService([]string{"1abc", "a b", "", "s" + strings.Repeat("v", 70), "a.b"}[g.rng.Intn(5)], "d", nil, g.any20(), "a", goodSchemas), "invalid: name")
	case 14:
		g.r.Msg(types.NewMsgDefineService("okname", "d", nil, g.any20(), "a", []string{"", "x", `{"input":1}`, `{"input":{"type":"nosuchtype"},"output":{}}`}[g.rng.Intn(4)]), "invalid: schemas")
	case 15:
		g.r.Msg(types.NewMsgDefineService("okname2", "d", []string{"t", "t"}, g.any20(), "a", goodSchemas), "invalid: duplicate tags")
	case 16:
		if pend := g.r.pre.PendingIDs(); len(pend) > 0 {
			r := g.r.pre.Requests[pend[0]]
			bad := [][2]string{{goodResult, ""}, {`{"code":500,"message":"e"}`, goodOutput}, {`{"code":200}`, goodOutput}, {`{"code":201,"message":""}`, goodOutput}, {"x", goodOutput}, {goodResult, "not json"}}
			k := bad[g.rng.Intn(len(bad))]
			g.r.Msg(types.NewMsgRespondService(unhex(pend[0]), r.Provider, k[0], k[1]), "invalid: result/output combination")
		}
	case 17:
		if hasCtx {
			g.r.Msg(types.NewMsgUpdateRequestContext(unhex(id), nil, nil, -1, 0, 0, rc.Consumer), "invalid: negative timeout")
			g.r.Msg(types.NewMsgUpdateRequestContext(unhex(id), nil, nil, 3, 2, 0, rc.Consumer), "invalid: frequency below timeout")
			g.r.Msg(types.NewMsgUpdateRequestContext(unhex(id), nil, nil, 0, 0, -2, rc.Consumer), "invalid: total -2")
			g.r.Msg(types.NewMsgUpdateRequestContext(unhex(id), []sdk.AccAddress{p0, p0}, nil, 0, 0, 0, rc.Consumer), "invalid: duplicate providers")
			eleven := append(append([]sdk.AccAddress{}, g.A.SignProv[:4]...), g.A.OddProv[:7]...)
			g.r.Msg(types.NewMsgUpdateRequestContext(unhex(id), eleven, nil, 0, 0, 0, rc.Consumer), "invalid: eleven providers in an update")
		}
	case 18:
		if hasCtx && rc.Repeated {
			// stateful rule: a frequency below the timeout in force, a total below the batches already issued
			g.r.Msg(types.NewMsgUpdateRequestContext(unhex(id), nil, nil, 0, uint64(rc.Timeout)-1, 0, rc.Consumer), "invalid: frequency below the stored timeout")
			if rc.BatchCounter > 1 {
				g.r.Msg(types.NewMsgUpdateRequestContext(unhex(id), nil, nil, 0, 0, int64(rc.BatchCounter)-1, rc.Consumer), "invalid: total below the batch counter")
			}
			g.r.Msg(types.NewMsgUpdateRequestContext(unhex(id), nil, nil, g.p.MaxRequestTimeout+1, uint64(g.p.MaxRequestTimeout)+1, 0, rc.Consumer), "invalid: timeout above the bound")
		}
	case 19:
		if hasB && g.rng.Intn(2) == 0 {
			// a re-pricing that must be refused, with and without a deposit riding along
			bp := badPricings[g.rng.Intn(len(badPricings))]
			var dep sdk.Coins
			if g.rng.Intn(2) == 0 {
				dep = coins(5)
			}
			owner := b.Owner
			if len(owner) != 20 {
				owner = g.owner()
			}
			g.r.Msg(types.NewMsgUpdateServiceBinding(b.ServiceName, b.Provider, dep, bp, 0, "{}", owner), "invalid: pricing in an update")
		} else if hasB {
			g.r.Msg(types.NewMsgUpdateServiceBinding(b.ServiceName, b.Provider, nil, "", uint64(g.p.MaxRequestTimeout)+1, "{}", b.Owner), "invalid: qos above the bound")
			g.r.Msg(types.NewMsgUpdateServiceBinding(b.ServiceName, b.Provider, nil, "", 0, "", b.Owner), "invalid: empty options")
		}
	case 20:
		g.r.Msg(types.NewMsgSetWithdrawAddress(g.owner(), nil), "invalid: empty withdrawal address")
		g.r.Msg(types.NewMsgWithdrawEarnedFees(nil, nil), "invalid: empty owner")
	case 21:
		call(provs, goodInput, sdk.NewCoins(sdk.NewCoin("atom", sdk.NewInt(5)), sdk.NewCoin(denom, sdk.NewInt(5))), 2, false, 0, 0, "two-denom cap")
	}
}

// pricing texts that bind and update must both refuse
var badPricings = []string{
	`{"price":"1stake","promotions_by_time":[{"start_time":"2030-01-01T00:00:20Z","end_time":"2030-01-01T00:00:10Z","discount":"0.5"}]}`,
	`{"price":"1stake","promotions_by_time":[{"start_time":"2030-01-01T00:00:10Z","end_time":"2030-01-01T00:00:30Z","discount":"0.5"},{"start_time":"2030-01-01T00:00:20Z","end_time":"2030-01-01T00:00:40Z","discount":"0.6"}]}`,
	`{"price":"1stake","promotions_by_volume":[{"volume":5,"discount":"0.5"},{"volume":2,"discount":"0.6"}]}`,
	`{"price":"100stake","promotions_by_volume":[{"volume":5,"discount":"0.9"},{"volume":20,"discount":"0.5"},{"volume":10,"discount":"0.8"}]}`,
	`{"price":"1stake","promotions_by_volume":[{"volume":0,"discount":"0.5"}]}`,
	`{"price":"1stake","promotions_by_volume":[{"volume":2,"discount":"1.0"}]}`,
	`{"price":"1stake","promotions_by_volume":[{"volume":2,"discount":"0"}]}`,
	`{"price":"100stake","promotions_by_volume":[{"volume":2,"discount":"1.5"}]}`,
	`{"price":"100stake","promotions_by_volume":[{"volume":1,"discount":"10.5"}]}`,
	`{"price":"100stake","promotions_by_time":[{"start_time":"2030-01-01T00:00:00Z","end_time":"2030-01-02T00:00:00Z","discount":"20.25"}]}`,
	`{"price":"-1stake"}`, `{"price":"1"}`, `{"price":"1stake","extra":1}`,
	`{"price":"1stake","promotions_by_volume":[{"volume":2,"discount":"0.5"},{"volume":2,"discount":"0.5"}]}`,
	`{"price":"1.0000000000000000001stake"}`, `{"price":"0.00000000000000000000000001stake"}`,
	`{"price":"115792089237316195423570985008687907853269984665640564039457584007913129639936stake"}`,
}

// opParams: governance changes a parameter on the live chain (never the minimum-deposit
// terms or the base denomination, see World.ChangeParams).
func (g *Gen) opParams() {
	np := g.p
	fresh := RandParams(g.rng)
	switch g.rng.Intn(5) {
	case 4:
		np.TxSizeLimit = fresh.TxSizeLimit
	case 0:
		np.MaxRequestTimeout = fresh.MaxRequestTimeout
		if g.rng.Intn(2) == 0 {
			np.MaxRequestTimeout = 1 // below the timeout of most live contexts
		}
	case 1:
		np.ServiceFeeTax = fresh.ServiceFeeTax
	case 2:
		np.SlashFraction = fresh.SlashFraction
	case 3:
		np.ComplaintRetrospect, np.ArbitrationTimeLimit = fresh.ComplaintRetrospect, fresh.ArbitrationTimeLimit
	}
	g.r.ChangeParams(np)
	g.p = np
}

func (g *Gen) opRestart() {
	if g.rng.Intn(2) == 0 {
		g.r.Restart()
		// afterwards the consumers start their contexts again
		for _, id := range sortedKeys(g.r.pre.Contexts) {
			rc := g.r.pre.Contexts[id]
			if g.rng.Intn(3) != 0 {
				if rc.ModuleName == "" {
					g.r.Msg(types.NewMsgStartRequestContext(unhex(id), rc.Consumer), "start after restart")
				} else if rc.ModuleName == verifModule {
					g.r.Mod(ModOp{Op: "start", CtxID: id, Consumer: hexs(rc.Consumer)}, "start after restart")
				}
			}
		}
	}
}

type wop struct {
	w int
	f func()
}

// Step performs one random step.
func (g *Gen) Step() {
	ops := []wop{
		{2, g.opDefine}, {5, func() { g.opBind(false) }}, {5, g.opUpdateBinding}, {3, g.opDisable}, {3, g.opEnable}, {3, g.opRefund},
		{2, g.opSetWithdraw}, {10, g.opCall}, {18, g.opRespond}, {3, func() { g.opCtxControl(0) }}, {3, func() { g.opCtxControl(1) }},
		{2, func() { g.opCtxControl(2) }}, {3, func() { g.opCtxControl(3) }}, {5, g.opWithdraw}, {24, g.opBlock},
		{3, g.opModCreate}, {3, g.opModControl}, {3, g.opModSvcCall}, {1, g.opRestart}, {1, g.opParams}, {4, g.opInvalidShape}, {1, g.opSwapped}, {1, g.opBankSend},
	}
	tot := 0
	for _, o := range ops {
		tot += o.w
	}
	x := g.rng.Intn(tot)
	for _, o := range ops {
		if x < o.w {
			o.f()
			return
		}
		x -= o.w
	}
}

// RandomHistory runs one random hostile history of n steps.
// forceCommit (CHAINMON_COMMIT=1) runs every random history in commit mode (experiments).
var forceCommit = os.Getenv("CHAINMON_COMMIT") == "1"

func RandomHistory(a *App, mon *Mon, seed int64, n int) *Run {
	rng := rand.New(rand.NewSource(seed))
	params := RandParams(rng)
	// some histories start just below a byte boundary of the big-endian height keys
	start := []int64{10, 10, 1, 2, 250, 65530, 1<<32 - 6, 1 << 40}[pick(rng, 8)]
	// every fourth history runs on a chain of its own through the application's real
	// BeginBlock / EndBlock / Commit (decided by the seed, not by a PRNG draw, so that the
	// histories themselves stay as they were)
	commit := seed%4 == 3 || forceCommit
	r := NewRunOpt(a, fmt.Sprintf("random-%d", seed), seed, params, mon, start, commit)
	act := MakeActors()
	mid := []int64{3, 10, 40, 500}[pick(r.rng, 4)]
	poor := []int64{0, 1, 2, 5}[pick(r.rng, 4)]
	act.FundAll(r, 1_000_000_000, mid, poor)
	if r.rng.Intn(3) != 0 {
		r.InstallModuleServiceQoS(RandPricing(r.rng, []string{"0", "1", "3", "0.5", "10"}[pick(r.rng, 5)]), []uint64{1, 1, 2, 3}[pick(r.rng, 4)])
	}
	r.SetStateCbKill(r.rng.Intn(5) == 0)
	r.SetViaApp(r.rng.Intn(2) == 0)
	r.SetKillOthers(r.rng.Intn(6) == 0)
	r.SetHostileHashes(r.rng.Intn(3) == 0)
	if r.rng.Intn(6) == 0 {
		r.InstallGhost(act.Consumers[0], act.SignProv[0])
	}
	r.Begin()
	g := NewGen(r, act)
	g.Bootstrap()
	for i := 0; i < n && !r.stop; i++ {
		g.Step()
	}
	// drain: let everything in flight expire
	for i := int64(0); i <= params.MaxRequestTimeout+1; i++ {
		r.Block(5 * time.Second)
	}
	r.Finish()
	return r
}

var _ = sort.Strings

func minI64(a, b int64) int64 {
	if a < b {
		return a
	}
	return b
}

// tweakPricing returns the pricing text with exactly one element changed (an end time, a
// start time, one discount, one volume threshold or the base price), or "" if it cannot.
func tweakPricing(rng *rand.Rand, text string) string {
	var raw map[string]interface{}
	dec := json.NewDecoder(strings.NewReader(text))
	dec.UseNumber()
	if dec.Decode(&raw) != nil {
		return ""
	}
	bt, _ := raw["promotions_by_time"].([]interface{})
	bv, _ := raw["promotions_by_volume"].([]interface{})
	shift := func(v interface{}, d time.Duration) interface{} {
		s, _ := v.(string)
		t, err := time.Parse(time.RFC3339Nano, s)
		if err != nil {
			return v
		}
		return t.Add(d).Format(time.RFC3339Nano)
	}
	switch k := rng.Intn(5); {
	case k == 0 && len(bt) > 0:
		p := bt[len(bt)-1].(map[string]interface{})
		p["end_time"] = shift(p["end_time"], 5*time.Second)
	case k == 1 && len(bt) > 0:
		p := bt[0].(map[string]interface{})
		p["start_time"] = shift(p["start_time"], -5*time.Second)
	case k == 2 && len(bt) > 0:
		bt[rng.Intn(len(bt))].(map[string]interface{})["discount"] = discounts[pick(rng, len(discounts))]
	case k == 3 && len(bv) > 0:
		p := bv[len(bv)-1].(map[string]interface{})
		if n, ok := p["volume"].(json.Number); ok {
			if i, err := n.Int64(); err == nil {
				p["volume"] = json.Number(fmt.Sprint(i + 1))
			}
		}
	case k == 4 && len(bv) > 0:
		bv[rng.Intn(len(bv))].(map[string]interface{})["discount"] = discounts[pick(rng, len(discounts))]
	default:
		raw["price"] = basePrices[pick(rng, len(basePrices))] + denom
	}
	out, err := json.Marshal(raw)
	if err != nil {
		return ""
	}
	return string(out)
}

// bech32Extension builds an address whose bech32 text has the complete bech32 text of a
// (data and checksum characters) as a prefix: the 38 five-bit groups of a 20-byte address
// followed by a zero group regroup into 24 bytes.
func bech32Extension(a sdk.AccAddress) sdk.AccAddress {
	const charset = "qpzry9x8gf2tvdw0s3jn54khce6mua7l"
	txt := a.String()
	data := txt[strings.LastIndex(txt, "1")+1:]
	var bits []byte
	for _, c := range data {
		v := strings.IndexRune(charset, c)
		if v < 0 {
			panic("not a bech32 character")
		}
		for i := 4; i >= 0; i-- {
			bits = append(bits, byte(v>>uint(i))&1)
		}
	}
	bits = append(bits, 0, 0, 0, 0, 0)
	out := make([]byte, len(bits)/8)
	for i := range out {
		for j := 0; j < 8; j++ {
			out[i] = out[i]<<1 | bits[i*8+j]
		}
	}
	ext := sdk.AccAddress(out)
	if !strings.HasPrefix(ext.String(), txt) {
		panic("bech32 extension does not extend " + txt + ": " + ext.String())
	}
	return ext
}
