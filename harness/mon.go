package main

// Monitor framework: per-rule counters of non-vacuous evaluations, distinct abstract
// situations, violations with signatures; per-history ledgers; the block-step oracle
// shared by several properties.

import (
	"fmt"
	"math/big"
	"sort"
	"strings"
	"sync"
	"time"

	sdk "github.com/cosmos/cosmos-sdk/types"

	"github.com/irismod/service/types"
)

type Stats struct {
	Hits        map[string]int             // "Cxx/rule" -> non-vacuous evaluations
	Situations  map[string]map[string]bool // "Cxx" -> distinct abstract situations
	Evaluations map[string]int             // "Cxx" -> steps/states judged
	Violations  []Violation
	VioHist     map[string]*History  // signature -> shortest witness history
	VioBy       map[string]Violation // signature -> the violation as reported in that witness
	Histories   int
	Steps       int
	OpKinds     map[string]int
	Samples     []*History
}

func NewStats() *Stats {
	return &Stats{Hits: map[string]int{}, Situations: map[string]map[string]bool{}, Evaluations: map[string]int{},
		VioHist: map[string]*History{}, VioBy: map[string]Violation{}, OpKinds: map[string]int{}}
}

func (s *Stats) Merge(o *Stats) {
	for k, v := range o.Hits {
		s.Hits[k] += v
	}
	for p, m := range o.Situations {
		if s.Situations[p] == nil {
			s.Situations[p] = map[string]bool{}
		}
		for k := range m {
			s.Situations[p][k] = true
		}
	}
	for k, v := range o.Evaluations {
		s.Evaluations[k] += v
	}
	for k, v := range o.OpKinds {
		s.OpKinds[k] += v
	}
	s.Violations = append(s.Violations, o.Violations...)
	for k, v := range o.VioHist {
		// keep the shortest witness history per signature
		if cur, ok := s.VioHist[k]; !ok || len(v.Steps) < len(cur.Steps) {
			s.VioHist[k] = v
			s.VioBy[k] = o.VioBy[k]
		}
	}
	s.Histories += o.Histories
	s.Steps += o.Steps
	for _, h := range o.Samples {
		if len(s.Samples) < 6 {
			s.Samples = append(s.Samples, h)
		}
	}
}

// statsMu guards the violation lists of all workers' Stats, so that the watchdog can
// report what was found so far if a step never returns.
var statsMu sync.Mutex
var allStats []*Stats

type StepCtx struct {
	Idx  int
	Step *Step
	Msg  sdk.Msg
	Res  *StepResult
	Pre  *Snap
	Post *Snap
	run  *Run
	blk  *BlockExp // lazily computed for block steps
}

func (sc *StepCtx) IsBlock() bool   { return sc.Step.Kind == "block" }
func (sc *StepCtx) IsRestart() bool { return sc.Step.Kind == "restart" }
func (sc *StepCtx) IsMsg() bool     { return sc.Step.Kind == "msg" }
func (sc *StepCtx) Accepted() bool  { return sc.Res.OK }
func (sc *StepCtx) opKind() string {
	switch sc.Step.Kind {
	case "msg":
		return sc.Step.MsgType
	case "mod":
		return "mod-" + sc.Step.Mod.Op
	}
	return sc.Step.Kind
}

// ReqLedger is the per-request ledger entry of C02.
type ReqLedger struct {
	ID       string
	Ctx      string
	Batch    uint64
	Index    int16
	Consumer string
	Provider string
	Service  string
	Fee      sdk.Int
	Super    bool
	IssueH   int64
	ExpH     int64
	Status   string // pending | paid | refunded-bad | refunded-expired | expired-super
	Module   string
}

type BatchInfo struct {
	Counter   uint64
	StartStep int
	StartH    int64
	ExpH      int64
	Threshold uint32
	Issued    int
	Callbacks int
	Closed    bool // expiry block ended
	CbOutputs []string
	CbErr     bool
	HasCb     bool
	Module    string
}

type Advance struct {
	H       int64
	Counter uint64
	Timeout int64
	Freq    uint64
	Issued  int
	// continuity since this advance
	RunningAll bool
	ParamsSame bool
}

type CtxTimeline struct {
	ID                      string
	CreatedH                int64
	CreatedIdx              int
	Module                  string
	Repeated                bool
	Advances                []Advance
	MaxTotal                int64
	NegTotal                bool
	Batches                 map[uint64]*BatchInfo
	Gone                    bool
	FirstChecked            bool
	RunningAtCreateBlockEnd bool
	Killed                  bool     // an accepted kill was observed
	KilledIdx               int      // step at which it was observed
	Restarted               bool     // went through a zero-height restart: lifecycle bounds are not judged across it
	Providers               []string // providers as named by the consumer (create / accepted update), hex
	NamedFreq               uint64   // frequency as named by the consumer (0 = never named: defaults to the timeout)
	NamedTimeout            int64
	NamedSet                bool
	NamedThreshold          uint32 // response threshold as named by the owning module (create / accepted update)
}

type Mon struct {
	stats    *Stats
	c17      *c17Mon // set when the query differential is attached
	c19      *c19Mon // set when the genesis scenario is attached
	run      *Run
	reqs     map[string]*ReqLedger
	ctxs     map[string]*CtxTimeline
	seenSig  map[string]bool
	broken   map[string]bool     // state-invariant rules already violated in this history
	only     map[string]bool     // properties to judge (nil = all)
	extra    []func(sc *StepCtx) // scenario monitors hooked per step (C17, C19)
	atFinish []func(r *Run)
	histOps  map[string]bool
	// block time at which each binding was last seen to turn unavailable (owner's disable or slash)
	disabledAt map[string]time.Time
}

func NewMon(stats *Stats) *Mon {
	return &Mon{stats: stats}
}

func (m *Mon) begin(r *Run) {
	m.run = r
	m.reqs = map[string]*ReqLedger{}
	m.ctxs = map[string]*CtxTimeline{}
	m.disabledAt = map[string]time.Time{}
	m.seenSig = map[string]bool{}
	m.broken = map[string]bool{}
	m.histOps = map[string]bool{}
	m.stats.Histories++
	m.checkState(&StepCtx{Idx: -1, Step: &Step{Kind: "genesis"}, Res: &StepResult{OK: true}, Pre: r.pre, Post: r.pre, run: r})
}

func (m *Mon) hit(prop, rule, situation string) {
	m.stats.Hits[prop+"/"+rule]++
	if situation != "" {
		mm := m.stats.Situations[prop]
		if mm == nil {
			mm = map[string]bool{}
			m.stats.Situations[prop] = mm
		}
		if len(mm) < 200000 {
			mm[rule+"|"+situation] = true
		}
	}
}

func (m *Mon) eval(prop string) { m.stats.Evaluations[prop]++ }

// failState reports a state-invariant violation once per history and rule: the
// signature names the step at which the invariant first broke, later snapshots in
// which it is still broken are not reported again.
func (m *Mon) failState(sc *StepCtx, prop, rule, sigDetail, format string, a ...interface{}) {
	if m.broken[prop+"/"+rule] {
		return
	}
	m.broken[prop+"/"+rule] = true
	m.fail(sc, prop, rule, sigDetail, format, a...)
}

func (m *Mon) fail(sc *StepCtx, prop, rule, sigDetail, format string, a ...interface{}) {
	sig := prop + "/" + rule
	if sigDetail != "" {
		sig += ":" + sigDetail
	}
	if m.seenSig[sig] {
		return
	}
	m.seenSig[sig] = true
	idx := -1
	if sc != nil {
		idx = sc.Idx
	}
	v := Violation{Prop: prop, Rule: rule, Sig: sig, Msg: fmt.Sprintf(format, a...), StepIdx: idx, History: m.run.hist.Name}
	statsMu.Lock()
	defer statsMu.Unlock()
	m.stats.Violations = append(m.stats.Violations, v)
	if cur, ok := m.stats.VioHist[sig]; !ok || len(m.run.hist.Steps) < len(cur.Steps) {
		// copy of the history so far (the witness); the shortest one is kept
		h := *m.run.hist
		h.Steps = append([]Step(nil), m.run.hist.Steps...)
		m.stats.VioHist[sig] = &h
		m.stats.VioBy[sig] = v
	}
}

func (m *Mon) check(sc *StepCtx) {
	m.stats.Steps++
	m.stats.OpKinds[sc.opKind()+okStr(sc.Res)]++
	m.histOps[sc.opKind()] = true
	if len(sc.Post.Problems) > 0 {
		m.fail(sc, "C18", "store-decodable", firstWords(sc.Post.Problems[0], 4), "store content not decodable/unambiguous: %v", sc.Post.Problems)
	}
	m.updateLedgers(sc)
	m.checkState(sc)
	m.checkStep(sc)
	for _, f := range m.extra {
		f(sc)
	}
}

func okStr(r *StepResult) string {
	switch {
	case r.Panic != "":
		return ":panic"
	case r.OK:
		return ":ok"
	case r.Rejected:
		return ":invalid"
	}
	return ":err"
}

func firstWords(s string, n int) string {
	f := strings.Fields(s)
	if len(f) > n {
		f = f[:n]
	}
	return strings.Join(f, "_")
}

// ---------------------------------------------------------------------------
// block-step oracle

type ExpBinding struct {
	Deposit   *big.Int
	Burned    *big.Int
	Available bool
	Failures  int
	TurnedOff bool
}

type BlockExp struct {
	H        int64
	Expiring []string            // pending requests of pre with expiry == h
	Failures []string            // the non-super ones
	Refunds  map[string]*big.Int // consumer hex -> amount
	Bindings map[string]*ExpBinding
	Burned   *big.Int
}

func (sc *StepCtx) block() *BlockExp {
	if sc.blk != nil {
		return sc.blk
	}
	pre := sc.Pre
	be := &BlockExp{H: pre.Height, Refunds: map[string]*big.Int{}, Bindings: map[string]*ExpBinding{}, Burned: new(big.Int)}
	fail := map[string]int{}
	for _, id := range pre.PendingIDs() {
		r, ok := pre.Requests[id]
		if !ok || r.ExpirationHeight != be.H {
			continue
		}
		be.Expiring = append(be.Expiring, id)
		rc, ok := pre.Contexts[hexs(r.RequestContextId)]
		if !ok || rc.SuperMode {
			continue
		}
		be.Failures = append(be.Failures, id)
		fail[bkey(rc.ServiceName, r.Provider)]++
		c := hexs(rc.Consumer)
		if be.Refunds[c] == nil {
			be.Refunds[c] = new(big.Int)
		}
		be.Refunds[c].Add(be.Refunds[c], bi(coinsAmt(r.ServiceFee)))
	}
	frac := decRat(pre.Params.SlashFraction)
	for bk, b := range pre.Bindings {
		eb := &ExpBinding{Deposit: bi(coinsAmt(b.Deposit)), Burned: new(big.Int), Available: b.Available, Failures: fail[bk]}
		if n := fail[bk]; n > 0 {
			eb.Deposit, eb.Burned = SlashN(eb.Deposit, frac, n)
			be.Burned.Add(be.Burned, eb.Burned)
			if b.Available {
				if op, err := ParsePricingText(b.Pricing); err == nil {
					if eb.Deposit.Cmp(MinDeposit(pre.Params, op)) < 0 {
						eb.Available = false
						eb.TurnedOff = true
					}
				}
			}
		}
		be.Bindings[bk] = eb
	}
	sc.blk = be
	return be
}

// Eligibility of the providers of a context at this block (C06), using bindings
// as they stand after the expiry phase. Returns the surely-eligible list, the
// possibly-eligible list (differs only when a price is ambiguous at the cap), prices.
type EligInfo struct {
	Sure, Maybe      []string // provider hex, context order
	PriceLo, PriceHi map[string]*big.Int
	Labels           map[string]string
}

func (sc *StepCtx) eligible(rc types.RequestContext, bindAfter map[string]*ExpBinding) *EligInfo {
	pre := sc.Pre
	ei := &EligInfo{PriceLo: map[string]*big.Int{}, PriceHi: map[string]*big.Int{}, Labels: map[string]string{}}
	capAmt := bi(coinsAmt(rc.ServiceFeeCap))
	for _, p := range rc.Providers {
		bk := bkey(rc.ServiceName, p)
		b, ok := pre.Bindings[bk]
		if !ok {
			continue
		}
		avail := b.Available
		if bindAfter != nil {
			if eb, ok := bindAfter[bk]; ok {
				avail = eb.Available
			}
		}
		if !avail || b.QoS > uint64(rc.Timeout) {
			continue
		}
		op, err := ParsePricingText(b.Pricing)
		if err != nil {
			continue
		}
		vol := pre.Volumes[rc.Consumer.String()+"\x00"+rc.ServiceName+"\x00"+p.String()]
		lo, hi, label := op.PriceRange(pre.Time, vol)
		ph := hexs(p)
		ei.PriceLo[ph], ei.PriceHi[ph], ei.Labels[ph] = lo, hi, label
		if hi.Cmp(capAmt) <= 0 {
			ei.Sure = append(ei.Sure, ph)
			ei.Maybe = append(ei.Maybe, ph)
		} else if lo.Cmp(capAmt) <= 0 {
			ei.Maybe = append(ei.Maybe, ph)
		}
	}
	return ei
}

func sameStrings(a, b []string) bool {
	if len(a) != len(b) {
		return false
	}
	for i := range a {
		if a[i] != b[i] {
			return false
		}
	}
	return true
}

func isSubseq(sub, full []string) bool {
	i := 0
	for _, f := range full {
		if i < len(sub) && sub[i] == f {
			i++
		}
	}
	return i == len(sub)
}

// new requests of the step grouped by (context, batch), ordered by index
func newRequests(sc *StepCtx) map[string][]string {
	out := map[string][]string{}
	for id := range sc.Post.Requests {
		if _, ok := sc.Pre.Requests[id]; ok {
			continue
		}
		c, n, _, _, ok := reqParts(id)
		if !ok {
			continue
		}
		k := fmt.Sprintf("%s/%d", c, n)
		out[k] = append(out[k], id)
	}
	for k := range out {
		sort.Strings(out[k]) // same context/batch/height prefix => sorted by index
	}
	return out
}

func bigOf(i int64) *big.Int { return big.NewInt(i) }

func delta(pre, post *Snap, addrHex string) *big.Int {
	a, b := sdk.ZeroInt(), sdk.ZeroInt()
	if v, ok := pre.Bal[addrHex]; ok {
		a = v
	}
	if v, ok := post.Bal[addrHex]; ok {
		b = v
	}
	return new(big.Int).Sub(b.BigInt(), a.BigInt())
}

func (w *World) addrOf(name string) string { return hexs(w.actors[name]) }
