package main

// F14: fixed scripts. Short schedules that every quick run executes in full (no sampling),
// one per class of seeded change that was at some point only found by the random part of
// the workload: the deciding monitors are the ordinary ones, the scripts only make sure the
// situation is reached whatever the seed.

import (
	"fmt"
	"strings"
	"time"

	sdk "github.com/cosmos/cosmos-sdk/types"

	"github.com/irismod/service/types"
)

const nScripts = 49

func runScript(a *App, mon *Mon, seed int64, v int) {
	p := baseParams()
	p.MaxRequestTimeout = 12
	var s *Sc
	if v == 25 {
		// as newSc, with two accounts rich beyond 2^64 (funded before the history begins)
		r := NewRun(a, fmt.Sprintf("script-%d", v), seed, p, mon)
		act := MakeActors()
		act.FundAll(r, 1_000_000_000, 1_000_000, 3)
		huge, _ := sdk.NewIntFromString("1000000000000000000000000000000")
		r.w.Fund("consumer1", act.Consumers[0], huge)
		r.w.Fund("owner2", act.Owners[1], huge)
		r.hist.Setup.BigFunds = append(r.hist.Setup.BigFunds, FundRec{Name: "consumer1", Addr: hexs(act.Consumers[0]), Amount: huge.String()}, FundRec{Name: "owner2", Addr: hexs(act.Owners[1]), Amount: huge.String()})
		r.Begin()
		s = &Sc{r: r, A: act, p: p}
	} else {
		s = newSc(a, mon, fmt.Sprintf("script-%d", v), seed, p, 1_000_000, 3, "")
	}
	o1, o2 := s.A.Owners[0], s.A.Owners[1]
	p1, p2, p3 := s.A.SignProv[0], s.A.SignProv[1], s.A.SignProv[2]
	cons := s.A.Consumers[0]
	if v == 19 {
		// before the module's accounts exist on this chain, their addresses are named as
		// withdrawal addresses
		s.r.Msg(types.NewMsgSetWithdrawAddress(o1, s.r.w.actors["deposits"]), "deposit account as withdrawal address, before it exists")
		s.r.Msg(types.NewMsgSetWithdrawAddress(o2, s.r.w.actors["escrow"]), "request escrow as withdrawal address, before it exists")
	}
	s.define("svc")
	s.bind("svc", p1, o1, 1000, price("2"), 1)
	s.bind("svc", p2, o1, 1000, price("3"), 1)
	s.bind("svc", p3, o2, 1000, price("5"), 1)
	all := []sdk.AccAddress{p1, p2, p3}
	answer := func(id string, provs ...sdk.AccAddress) {
		for _, pr := range provs {
			for _, rid := range s.pendingOf(id, pr) {
				s.respond(rid, pr, 0)
			}
		}
	}
	blocks := func(n int) {
		for i := 0; i < n; i++ {
			s.block()
		}
	}
	modUpdate := func(id string, thr uint32, timeout int64, freq uint64, total int64) {
		s.r.Mod(ModOp{Op: "update", CtxID: id, Consumer: hexs(cons), Threshold: thr, Timeout: timeout, Freq: freq, Total: total}, "")
	}
	switch v {
	case 0:
		// a provider that belongs to o1 tries to take itself over on another service
		s.r.Msg(types.NewMsgDefineService("svc2", "d", nil, o2, "a", goodSchemas), "")
		s.r.Msg(types.NewMsgBindService("svc2", p1, coins(1000), price("1"), 1, "{}", p1), "provider names itself as owner although it belongs to another owner")
		s.r.Msg(types.NewMsgBindService("svc2", p1, coins(1000), price("1"), 1, "{}", o2), "foreign owner")
		s.r.Msg(types.NewMsgBindService("svc2", p1, coins(1000), price("1"), 1, "{}", o1), "rightful owner")
		s.r.Msg(types.NewMsgBindService("svc2", o2, coins(1000), price("1"), 1, "{}", o2), "an account binding itself first")
		s.r.Msg(types.NewMsgBindService("svc", o2, coins(1000), price("1"), 1, "{}", o1), "then claimed by another owner")
		id := s.call("svc2", []sdk.AccAddress{p1, o2}, cons, 100, 2, false, false, 0, 0)
		s.block()
		answer(id, p1, o2)
		s.block()
		s.r.Msg(types.NewMsgWithdrawEarnedFees(p1, p1), "provider withdraws for itself")
		s.r.Msg(types.NewMsgWithdrawEarnedFees(o1, p1), "")
		blocks(2)
	case 1, 2:
		// module context: threshold changed while a batch is in flight (3 -> 1 / 1 -> 3), the
		// number of outputs lying between the two; the next batch is judged by the new one
		from, to := uint32(3), uint32(1)
		if v == 2 {
			from, to = 1, 3
		}
		id := s.modCreate("svc", all, cons, 100, 3, true, 5, 3, from)
		s.block() // batch 1
		answer(id, p1)
		modUpdate(id, to, 0, 0, 0)
		blocks(3) // batch 1 expires: judged by the threshold it started with
		blocks(2) // batch 2 issued under the new threshold
		answer(id, p1, p2)
		blocks(4)
		answer(id, p1, p2, p3)
		blocks(6)
	case 3, 4:
		// a one-shot context updated while its batch is in flight: frequency / total are left
		// behind on a context that never repeats
		id := s.call("svc", all, cons, 100, 3, false, false, 0, 0)
		s.block()
		total := int64(-1)
		if v == 4 {
			total = 4
		}
		s.r.Msg(types.NewMsgUpdateRequestContext(unhex(id), nil, nil, 0, 3, total, cons), "schedule terms on a one-shot context")
		answer(id, p1)
		blocks(12)
	case 5, 6:
		// paused while a batch is in flight, then killed; the designated providers still answer
		// in time, the rest expires
		id := s.call("svc", all, cons, 100, 3, false, true, 5, 4)
		s.block()
		s.ctl("pause", id, cons)
		if v == 6 {
			s.block()
		}
		s.ctl("kill", id, cons)
		answer(id, p1)
		s.block()
		answer(id, p2)
		blocks(6)
	case 7, 8:
		// timeout and frequency lowered together while a batch is in flight: the new frequency
		// is below the old timeout
		id := s.call("svc", all, cons, 100, 10, false, true, 10, 5)
		s.block()
		if v == 8 {
			blocks(3)
		}
		s.r.Msg(types.NewMsgUpdateRequestContext(unhex(id), nil, nil, 4, 4, 0, cons), "10/10 -> 4/4 in flight")
		answer(id, p1)
		blocks(24)
	case 9:
		// governance raises the tax and the slash fraction between issue and response / expiry
		id := s.call("svc", all, cons, 100, 3, false, true, 4, 3)
		s.block()
		np := p
		np.ServiceFeeTax = sdk.NewDecWithPrec(25, 2)
		np.SlashFraction = sdk.NewDecWithPrec(5, 1)
		np.TxSizeLimit = 16
		s.r.ChangeParams(np)
		answer(id, p1, p2)
		blocks(4)
		answer(id, p1, p2, p3)
		blocks(8)
	case 10:
		// the consumer cannot pay; it gets money (owner earnings routed to it) and starts again
		// inside the timeout window of the attempt that failed
		poor := s.A.Consumers[2]
		id1 := s.call("svc", []sdk.AccAddress{p3}, poor, 100, 4, false, false, 0, 0)
		id2 := s.call("svc", []sdk.AccAddress{p3}, poor, 100, 4, false, true, 6, 3)
		idr := s.call("svc", all, cons, 100, 2, false, false, 0, 0)
		s.block()
		answer(idr, p1, p2, p3)
		s.r.Msg(types.NewMsgSetWithdrawAddress(o2, poor), "route owner earnings to the poor consumer")
		s.r.Msg(types.NewMsgWithdrawEarnedFees(o2, nil), "")
		s.ctl("start", id1, poor)
		s.ctl("start", id2, poor)
		blocks(3)
		answer(id1, p3)
		answer(id2, p3)
		blocks(14)
	case 11:
		// refused re-pricing without a deposit, then calls that reach the refused tier
		s.r.Msg(types.NewMsgUpdateServiceBinding("svc", p1, nil, `{"price":"2stake","promotions_by_volume":[{"volume":1,"discount":"1.5"}]}`, 0, "{}", o1), "re-pricing with a discount above one, no deposit")
		id := s.call("svc", []sdk.AccAddress{p1}, cons, 100, 1, false, true, 1, 5)
		for b := 0; b < 7; b++ {
			answer(id, p1)
			s.block()
		}
	case 12:
		// a provider dropped from the context while its request is in flight: the request
		// still expires, is refunded and costs the provider a slash
		id := s.call("svc", all, cons, 100, 3, false, true, 4, 3)
		s.block()
		s.r.Msg(types.NewMsgUpdateRequestContext(unhex(id), []sdk.AccAddress{p1, p2}, nil, 0, 0, 0, cons), "drop a provider mid-batch")
		answer(id, p1)
		blocks(5)
		answer(id, p1, p2)
		blocks(8)
	case 13:
		// paused while a batch is in flight, then the total is lowered to exactly the number
		// of batches issued: nothing of the batch in flight may be left behind
		id := s.call("svc", all, cons, 100, 4, false, true, 5, 4)
		s.block()
		s.ctl("pause", id, cons)
		s.block()
		s.r.Msg(types.NewMsgUpdateRequestContext(unhex(id), nil, nil, 0, 0, 1, cons), "total lowered to the current batch counter while paused in flight")
		answer(id, p1)
		blocks(8)
	case 14:
		// another module pays from its own module account; requests time out or are answered
		// with a malformed output: the fees go back to that account
		gov := s.r.w.actors["govacc"]
		id := s.modCreate("svc", all, gov, 100, 3, true, 4, 2, 1)
		s.block()
		for _, rid := range s.pendingOf(id, p1) {
			s.respond(rid, p1, 1)
		}
		answer(id, p2)
		blocks(4)
		blocks(6)
	case 15:
		// two calls in one transaction, by different consumers with different inputs, to the same
		// binding; both pending when the by-binding query is asked
		s.r.MsgTx(types.NewMsgCallService("svc", []sdk.AccAddress{p1}, cons, `{"header":{},"body":{"q":"first"}}`, coins(100), 3, false, false, 0, 0), "", false)
		s.r.MsgTx(types.NewMsgCallService("svc", []sdk.AccAddress{p1, p2}, s.A.Consumers[1], `{"header":{},"body":{"q":"second"}}`, coins(100), 3, false, true, 4, 2), "second message of the transaction", true)
		s.r.MsgTx(types.NewMsgCallService("svc", []sdk.AccAddress{p1}, s.A.Stranger, `{"header":{},"body":{"q":"third"}}`, coins(100), 2, true, false, 0, 0), "third message of the transaction", true)
		s.block()
		s.block()
		answer("", p1)
		blocks(6)
	case 16:
		// a module asks twice while it handles one message
		s.r.Mod(ModOp{Op: "create2", Service: "svc", Providers: []string{hexs(p1), hexs(p2)}, Consumer: hexs(cons), Input: goodInput, FeeCap: 100, Timeout: 2,
			Repeated: true, Freq: 3, Total: 2, Threshold: 1, Module: verifModule}, "two contexts under one message")
		s.r.MsgTx(types.NewMsgCallService("svc", []sdk.AccAddress{p1}, cons, goodInput, coins(100), 2, false, false, 0, 0), "", false)
		s.r.MsgTx(types.NewMsgCallService("svc", []sdk.AccAddress{p2}, cons, goodInput, coins(100), 2, false, false, 0, 0), "next message of that transaction", true)
		s.block()
		answer("", p1, p2)
		blocks(8)
	case 17:
		// more providers than a context may name, in an update; then the genesis is exported
		id := s.call("svc", all, cons, 100, 3, false, true, 4, 3)
		eleven := append(append([]sdk.AccAddress{}, s.A.SignProv[:4]...), s.A.OddProv[:7]...)
		s.r.Msg(types.NewMsgUpdateRequestContext(unhex(id), eleven, nil, 0, 0, 0, cons), "invalid: eleven providers in an update")
		s.r.Msg(types.NewMsgUpdateRequestContext(unhex(id), eleven[:10], nil, 0, 0, 0, cons), "ten providers")
		blocks(6)
	case 18:
		// bank transfers into the module's accounts (before and after they exist), the owner
		// withdrawing with an explicitly empty provider field, swapped provider / owner fields
		s.r.Send(s.A.Stranger, s.r.w.actors["deposits"], 7, "transfer into the deposit account")
		s.r.Send(s.A.Stranger, s.r.w.actors["escrow"], 7, "transfer into the request escrow")
		s.r.Send(s.A.Stranger, cons, 7, "ordinary transfer")
		id := s.call("svc", all, cons, 100, 2, false, false, 0, 0)
		s.block()
		answer(id, p1, p2, p3)
		s.block()
		s.r.Msg(types.NewMsgDisableServiceBinding("svc", o1, p1), "wrong-signer: provider and owner fields swapped")
		s.r.Msg(types.NewMsgWithdrawEarnedFees(p1, o1), "wrong-signer: provider and owner fields swapped")
		s.r.Msg(types.NewMsgSetWithdrawAddress(o1, s.A.Wallets[0]), "")
		bz, err := types.NewMsgWithdrawEarnedFees(o1, nil).Marshal()
		must(err)
		s.r.MsgRaw(types.TypeMsgWithdrawEarnedFees, append(bz, 0x12, 0x00), "explicit empty provider field")
		s.r.Msg(types.NewMsgWithdrawEarnedFees(o2, nil), "")
		s.r.Send(s.A.Stranger, s.r.w.actors["deposits"], 7, "transfer into the deposit account")
		blocks(2)
	case 19:
		id := s.call("svc", all, cons, 100, 2, false, false, 0, 0)
		s.block()
		answer(id, p1, p2, p3)
		s.block()
		s.r.Msg(types.NewMsgWithdrawEarnedFees(o1, nil), "")
		s.r.Msg(types.NewMsgWithdrawEarnedFees(o2, p3), "")
		blocks(2)
	case 20:
		// disabled by its owner, enabled again with a top-up, much later disabled by a slash:
		// the refund wait counts from the slash
		p4 := s.A.SignProv[3]
		s.bind("svc", p4, o2, 50, price("2"), 1) // exactly the minimum deposit
		s.r.Msg(types.NewMsgDisableServiceBinding("svc", p4, o2), "")
		s.block()
		s.r.Msg(types.NewMsgEnableServiceBinding("svc", p4, coins(1), o2), "enable with a top-up")
		s.r.Block(30 * time.Second)
		s.call("svc", []sdk.AccAddress{p4}, cons, 100, 1, false, false, 0, 0)
		s.call("svc", []sdk.AccAddress{p4}, s.A.Consumers[1], 100, 1, false, false, 0, 0)
		s.block()
		s.block() // both time out: slashed below the minimum, disabled now
		s.r.Msg(types.NewMsgRefundServiceDeposit("svc", p4, o2), "refund right after the slash")
		s.block()
		s.r.Msg(types.NewMsgRefundServiceDeposit("svc", p4, o2), "refund 5 s after the slash")
		s.r.Block(10*time.Second - 1)
		s.r.Msg(types.NewMsgRefundServiceDeposit("svc", p4, o2), "1 ns early")
		s.r.Block(1)
		s.r.Msg(types.NewMsgRefundServiceDeposit("svc", p4, o2), "at the deadline")
	case 21:
		// the provider dropped from the context answers the request it was sent: in time, its own
		id := s.call("svc", all, cons, 100, 3, false, true, 4, 3)
		s.block()
		s.r.Msg(types.NewMsgUpdateRequestContext(unhex(id), []sdk.AccAddress{p1, p2}, nil, 0, 0, 0, cons), "drop a provider mid-batch")
		answer(id, p3, p1)
		blocks(5)
		answer(id, p1, p2, p3)
		blocks(8)
	case 22:
		// the whole deposit is slashed away (fraction 1), the owner tops the disabled binding up
		// again and asks for a refund before the wait is over
		np := p
		np.SlashFraction = sdk.OneDec()
		s.r.ChangeParams(np)
		s.call("svc", []sdk.AccAddress{p3}, cons, 100, 1, false, false, 0, 0)
		s.block()
		s.block() // times out: deposit 0, disabled now
		s.r.Msg(types.NewMsgUpdateServiceBinding("svc", p3, coins(500), "", 0, "{}", o2), "top-up of the disabled, emptied binding")
		s.block()
		s.r.Msg(types.NewMsgRefundServiceDeposit("svc", p3, o2), "refund 5 s after the slash")
		s.r.Block(10*time.Second - 1)
		s.r.Msg(types.NewMsgRefundServiceDeposit("svc", p3, o2), "1 ns early")
		s.r.Block(1)
		s.r.Msg(types.NewMsgRefundServiceDeposit("svc", p3, o2), "at the deadline")
		s.r.Restart()
		blocks(2)
	case 23:
		// promotion windows with fractional-second bounds; block times on the whole seconds
		// around them
		p4 := s.A.SignProv[3]
		g := genesisTime
		win := fmt.Sprintf(`{"price":"100%s","promotions_by_time":[{"start_time":"%s","end_time":"%s","discount":"0.5"},{"start_time":"%s","end_time":"%s","discount":"0.25"}]}`, denom,
			g.Add(10*time.Second+200*time.Millisecond).Format(time.RFC3339Nano), g.Add(20*time.Second+500*time.Millisecond).Format(time.RFC3339Nano),
			g.Add(25*time.Second+1).Format(time.RFC3339Nano), g.Add(35*time.Second+999999999).Format(time.RFC3339Nano))
		s.bind("svc", p4, o2, 5000, win, 1)
		id := s.call("svc", []sdk.AccAddress{p4}, cons, 100, 1, false, true, 1, 10)
		for b := 0; b < 10; b++ {
			answer(id, p4)
			s.block()
		}
	case 24:
		// ten providers in one batch: every request is found at its index in the issue event
		var ten []sdk.AccAddress
		for i, pr := range append(append([]sdk.AccAddress{}, s.A.SignProv[3:7]...), s.A.OddProv[:6]...) {
			s.bind("svc", pr, o2, 1000, price(fmt.Sprint(1+i%3)), 1)
			ten = append(ten, pr)
		}
		id := s.call("svc", ten, cons, 100, 2, false, true, 3, 2)
		// the same ten under a cap that some of the first eight exceed (prices are 1, 2, 3)
		id2 := s.call("svc", ten, s.A.Consumers[1], 2, 2, false, false, 0, 0)
		// a provider named twice, not adjacently (refused by stateless validation), in a call
		// and in an update
		dup := append(append([]sdk.AccAddress{}, ten[:9]...), ten[0])
		s.call("svc", dup, cons, 100, 2, false, true, 3, 2)
		s.r.Msg(types.NewMsgUpdateRequestContext(unhex(id), dup, nil, 0, 0, 0, cons), "a provider named twice, not adjacently")
		s.block()
		answer(id, ten[8], ten[9], ten[0])
		answer(id2, ten[0], ten[3])
		blocks(6)
	case 25:
		// a price beyond 10^19 with a time and a volume promotion both in effect, discounts with
		// 18 decimals: the fee is the base price times each discount, truncated once
		whale := s.A.Consumers[0]
		p4 := s.A.SignProv[3]
		pr := fmt.Sprintf(`{"price":"33333333333333333333%s","promotions_by_time":[{"start_time":"%s","end_time":"%s","discount":"0.333333333333333333"}],"promotions_by_volume":[{"volume":1,"discount":"0.777777777777777777"}]}`, denom,
			genesisTime.Format(time.RFC3339), genesisTime.Add(time.Hour).Format(time.RFC3339))
		dep, _ := sdk.NewIntFromString("400000000000000000000")
		s.r.Msg(types.NewMsgBindService("svc", p4, sdk.NewCoins(sdk.NewCoin(denom, dep)), pr, 1, "{}", o2), "")
		capAmt, _ := sdk.NewIntFromString("100000000000000000000")
		id := s.r.Msg(types.NewMsgCallService("svc", []sdk.AccAddress{p4}, whale, goodInput, sdk.NewCoins(sdk.NewCoin(denom, capAmt)), 1, false, true, 1, 4), "").NewCtxID
		for b := 0; b < 6; b++ {
			answer(id, p4)
			s.block()
			if b == 0 || b == 1 {
				s.r.Probe() // genesis scenario while a fee beyond 2^63 (first batch) / just below it is pending
			}
		}
	case 26:
		// two consumers on different sides of a volume tier start identical contexts (same
		// service, providers, timeout, cap) in the same block, three times over: each is charged
		// what its own requests record
		p4 := s.A.SignProv[3]
		cons2 := s.A.Consumers[1]
		s.bind("svc", p4, o2, 5000, fmt.Sprintf(`{"price":"10%s","promotions_by_volume":[{"volume":1,"discount":"0.5"},{"volume":4,"discount":"0.2"}]}`, denom), 1)
		id := s.call("svc", []sdk.AccAddress{p4}, cons, 100, 2, false, false, 0, 0)
		s.block()
		answer(id, p4)
		blocks(2)
		for round := 0; round < 3; round++ {
			a := s.call("svc", []sdk.AccAddress{p4}, cons, 100, 2, false, false, 0, 0)
			b := s.call("svc", []sdk.AccAddress{p4}, cons2, 100, 2, false, false, 0, 0)
			s.block()
			answer(a, p4)
			if round != 1 {
				answer(b, p4)
			}
			blocks(3)
		}
	case 27:
		// the total lowered below the number of batches already issued (refused), the context
		// paused inside its last batch and started again after that batch has expired
		id := s.call("svc", all, cons, 100, 2, false, true, 3, 2)
		s.block() // batch 1
		answer(id, p1, p2, p3)
		blocks(3) // batch 2 of 2 is issued
		s.r.Msg(types.NewMsgUpdateRequestContext(unhex(id), nil, nil, 0, 0, 1, cons), "total below the batch counter")
		s.ctl("pause", id, cons)
		blocks(3) // batch 2 expires while paused
		s.ctl("start", id, cons)
		blocks(8)
	case 28:
		// ten distinct bindings fail twice in one block and three of them three times (two
		// ten-provider contexts and three single-provider contexts, all expiring together): every failure
		// lowers the recorded deposit and burns exactly that much
		var ten []sdk.AccAddress
		for i, pr := range append(append([]sdk.AccAddress{}, s.A.SignProv[3:7]...), s.A.OddProv[:3]...) {
			s.bind("svc", pr, o2, 2000+int64(i), price("1"), 1)
			ten = append(ten, pr)
		}
		ten = append(ten, p1, p2, p3)
		s.call("svc", ten, cons, 100, 2, false, false, 0, 0)
		// ... and the same ten once more, named in the opposite order by another consumer
		rev := make([]sdk.AccAddress, 0, 10)
		for i := len(ten) - 1; i >= 0; i-- {
			rev = append(rev, ten[i])
		}
		s.call("svc", rev, s.A.Consumers[1], 100, 2, false, false, 0, 0)
		s.call("svc", []sdk.AccAddress{p1}, cons, 100, 2, false, false, 0, 0)
		s.call("svc", []sdk.AccAddress{p2}, s.A.Consumers[1], 100, 2, false, false, 0, 0)
		s.call("svc", []sdk.AccAddress{p3}, cons, 100, 2, false, false, 0, 0)
		blocks(4)
	case 29:
		// the largest list of volume tiers the pricing schema admits (five), one reached after
		// another: the fee follows the tier that the consumer's volume has reached, up to the last
		p4 := s.A.SignProv[3]
		tiers := ""
		for i, v := range []int{1, 2, 3, 5, 8} {
			if i > 0 {
				tiers += ","
			}
			tiers += fmt.Sprintf(`{"volume":%d,"discount":"0.%02d1"}`, v, 90-17*i)
		}
		s.bind("svc", p4, o2, 200000, fmt.Sprintf(`{"price":"1000%s","promotions_by_volume":[%s]}`, denom, tiers), 1)
		id := s.call("svc", []sdk.AccAddress{p4}, cons, 1000, 1, false, true, 1, 11)
		for b := 0; b < 13; b++ {
			s.block()
			answer(id, p4)
		}
	case 30:
		// twelve contexts of two solvent consumers due in one block (and again at their next
		// batch): each is charged exactly for the requests created for it
		for i := 0; i < 12; i++ {
			c := s.A.Consumers[i%2]
			s.call("svc", []sdk.AccAddress{[]sdk.AccAddress{p1, p2, p3}[i%3]}, c, 100, 2, false, true, 4, 2)
		}
		blocks(9)
	case 31:
		// governance lowers the maximum request timeout below the response time of existing
		// bindings while a repeated context that still reaches them is running: the next batch
		// is charged as issued, a slash below the minimum still disables, a re-pricing still
		// needs its collateral
		p4, p5 := s.A.SignProv[3], s.A.SignProv[4]
		s.bind("svc", p4, o2, 100, price("10"), 10) // deposit exactly price x multiple
		s.bind("svc", p5, o2, 100, price("7"), 9)
		id := s.call("svc", []sdk.AccAddress{p4, p5, p1}, cons, 100, 12, false, true, 12, 3)
		s.block()
		answer(id, p4, p5, p1)
		np := s.p
		np.MaxRequestTimeout = 5
		s.r.ChangeParams(np)
		s.r.Probe() // queries and the genesis scenario right after the change, a batch of the old regime in flight
		s.r.Msg(types.NewMsgUpdateServiceBinding("svc", p5, nil, price("70"), 4, "{}", o2), "response time repaired and price raised tenfold without collateral")
		s.r.Msg(types.NewMsgUpdateServiceBinding("svc", p5, nil, "", 4, "{}", o2), "response time repaired")
		blocks(12) // batch 2 is issued under the lowered maximum
		s.r.Probe()
		answer(id, p1)
		blocks(13) // batch 2 expires: p4 (and p5) unanswered
		blocks(2)
	case 32:
		// volume tiers beyond 2^53: the stored price terms are those of the published text, digit
		// for digit
		p4 := s.A.SignProv[3]
		s.bind("svc", p4, o2, 5000, fmt.Sprintf(`{"price":"10%s","promotions_by_volume":[{"volume":2,"discount":"0.9"},{"volume":9007199254740993,"discount":"0.5"},{"volume":9223372036854775809,"discount":"0.3"},{"volume":18446744073709551615,"discount":"0.1"}]}`, denom), 1)
		s.r.Msg(types.NewMsgUpdateServiceBinding("svc", p1, nil, fmt.Sprintf(`{"price":"2%s","promotions_by_volume":[{"volume":9007199254740995,"discount":"0.5"}]}`, denom), 0, "{}", o1), "")
		id := s.call("svc", []sdk.AccAddress{p4, p1}, cons, 100, 1, false, true, 1, 4)
		for b := 0; b < 5; b++ {
			s.block()
			answer(id, p4, p1)
		}
		s.r.Restart()
		blocks(2)
	case 33:
		// a plain export (no zero-height preparation) taken while a repeated context idles between
		// two batches, and one taken right after a call: probes at those instants
		id := s.call("svc", all, cons, 100, 2, false, true, 6, 3)
		s.r.Probe() // called, first batch not yet issued
		s.block()
		answer(id, p1, p2, p3)
		blocks(3) // batch 1 expired, batch 2 due at +6
		s.r.Probe()
		s.ctl("pause", id, cons)
		s.r.Probe()
		s.ctl("start", id, cons)
		blocks(8)
	case 34:
		// a provider whose address continues another provider's with a byte that sorts after the
		// denomination earns more than that provider's owner has earned; then the shorter one
		// withdraws. Names and descriptions that stateless validation refuses at their last
		// byte / for their encoding, followed by a restart.
		px := s.A.OddProv[2] // p1 followed by 'x'
		s.bind("svc", px, o2, 1000, price("40"), 1)
		id := s.call("svc", []sdk.AccAddress{p1, px}, cons, 100, 2, false, true, 2, 3)
		for b := 0; b < 3; b++ {
			s.block()
			answer(id, px)
			if b == 0 {
				answer(id, p1)
			}
			s.block()
		}
		s.r.Msg(types.NewMsgWithdrawEarnedFees(o1, p1), "the shorter of two prefix-related providers withdraws")
		s.r.Msg(types.NewMsgWithdrawEarnedFees(o2, px), "")
		for _, n := range []string{"ab\x00", "svc\x00", "ab/", "ab ", "sv\x00c"} {
			s.r.Msg(types.NewMsgDefineService(n, "d", nil, o1, "a", goodSchemas), "name with a bad byte")
			s.r.Msg(types.NewMsgBindService(n, p2, coins(1000), price("1"), 1, "{}", o1), "")
		}
		s.r.Restart()
		blocks(2)
	case 37:
		// texts that are not UTF-8 (refused) in each of the two description fields, then a restart
		// through the genesis file (only 20-byte providers here, so that the file can be read back)
		s.r.Msg(types.NewMsgDefineService("svclatin", "d", nil, o1, "Caf\xe9 Labs", goodSchemas), "author description that is not UTF-8")
		s.r.Msg(types.NewMsgDefineService("svclatin2", "Caf\xe9", nil, o1, "a", goodSchemas), "description that is not UTF-8")
		s.r.Msg(types.NewMsgDefineService("svcutf", "caf\u00e9 \u4e2d", []string{"t\u00e9"}, o1, "\u00e9", goodSchemas), "valid multi-byte texts")
		id := s.call("svc", all, cons, 100, 2, false, true, 3, 2)
		s.block()
		answer(id, p1)
		s.r.RestartOpt(false)
		blocks(2)
		s.r.RestartOpt(true)
		blocks(2)
	case 35:
		// parameter-change proposals with values outside their legal range are refused; requests
		// that fail afterwards are slashed under the parameters really in force
		id := s.call("svc", all, cons, 100, 2, false, true, 3, 3)
		s.block()
		for _, f := range []string{"-0.5", "1.5", "-0.000000000000000001", "1.000000000000000001"} {
			np := s.p
			np.SlashFraction = sdk.MustNewDecFromStr(f)
			s.r.ChangeParams(np)
			answer(id, p1)
			s.respond(firstOf(s.pendingOf(id, p2)), p2, 1) // malformed output: slash branch of the response path
			blocks(3)
		}
		np := s.p
		np.ServiceFeeTax = sdk.MustNewDecFromStr("1.0")
		s.r.ChangeParams(np)
		np = s.p
		np.MaxRequestTimeout = 0
		s.r.ChangeParams(np)
		np = s.p
		np.MinDeposit = sdk.Coins{sdk.NewCoin(denom, sdk.NewInt(50)), sdk.NewCoin("atom", sdk.NewInt(1))} // not sorted: not a valid coin list
		s.r.ChangeParams(np)
		s.r.Msg(types.NewMsgBindService("svc", s.A.SignProv[3], coins(20), price("1"), 1, "{}", o2), "below the minimum deposit")
		np = s.p
		np.ComplaintRetrospect = -time.Second
		s.r.ChangeParams(np)
		blocks(3)
	case 36:
		// two module contexts whose unanswered batches expire in one block; the module reacts to
		// the failed batch of one by killing its other contexts, from inside the response
		// callback: the killed one is finished when its own batch expires in the same block
		s.r.SetRespKillOthers(true)
		a := s.modCreate("svc", all, cons, 100, 2, true, 4, 5, 2)
		b := s.modCreate("svc", all, cons, 100, 2, true, 4, 5, 2)
		c := s.modCreate("svc", []sdk.AccAddress{p1}, cons, 100, 2, true, 4, 5, 1)
		s.block()
		answer(a, p1)
		answer(b, p2)
		_ = c
		blocks(10)
	case 38:
		// zero-height restarts while a paid batch is in flight for a context that was paused, and
		// for one that was killed: the pending fees go back to their consumers all the same
		a := s.call("svc", all, cons, 100, 4, false, true, 5, 3)
		b := s.call("svc", []sdk.AccAddress{p1, p2}, s.A.Consumers[1], 100, 4, false, true, 5, 3)
		s.block()
		answer(a, p1)
		s.ctl("pause", a, cons)
		s.ctl("kill", b, s.A.Consumers[1])
		s.r.RestartOpt(false)
		blocks(2)
		s.ctl("start", a, cons)
		blocks(6)
	case 39:
		// the maximum request timeout lowered while a batch issued under the old value is in
		// flight; the context is paused and started again inside that batch, and its timeout is
		// brought under the new maximum by an update before a later start
		id := s.call("svc", all, cons, 100, 12, false, true, 12, 3)
		one := s.call("svc", []sdk.AccAddress{p1}, s.A.Consumers[1], 100, 12, false, false, 0, 0)
		s.block()
		np := s.p
		np.MaxRequestTimeout = 4
		s.r.ChangeParams(np)
		s.r.Probe()
		s.ctl("kill", one, s.A.Consumers[1])  // a one-shot context is never killed, whatever the parameters say now
		s.ctl("pause", one, s.A.Consumers[1]) // ... nor paused
		s.ctl("pause", id, cons)
		s.ctl("start", id, cons)
		blocks(3)
		answer(id, p1)
		s.ctl("pause", id, cons)
		blocks(10) // batch 1 expires while paused
		s.r.Msg(types.NewMsgUpdateRequestContext(unhex(id), nil, nil, 3, 4, 0, cons), "timeout brought under the lowered maximum")
		s.ctl("start", id, cons)
		blocks(9)
	case 40, 41:
		// restarts with module contexts and self-providing owners: a threshold raised by the
		// module while a batch is in flight survives the restart; the consumer of a module
		// context still cannot steer it by messages; every binding is priced by its own text
		// again, whoever owns it
		s.r.Msg(types.NewMsgBindService("svc", o2, coins(1000), price("7"), 1, "{}", o2), "an owner providing the service itself")
		s.r.Msg(types.NewMsgBindService("svc", o1, coins(2000), price("11"), 1, "{}", o1), "")
		s.bind("svc", s.A.SignProv[3], o2, 2000, price("100"), 1)
		mid := s.modCreate("svc", all, cons, 100, 3, true, 5, 4, 1)
		s.block()
		modUpdate(mid, 3, 0, 0, 0)
		answer(mid, p1)
		if v == 41 {
			blocks(3)
		}
		s.r.RestartOpt(v == 41)
		s.r.Msg(types.NewMsgStartRequestContext(unhex(mid), cons), "consumer of a module context, after the restart")
		s.r.Msg(types.NewMsgUpdateRequestContext(unhex(mid), nil, coins(5), 0, 0, 0, cons), "consumer of a module context, after the restart")
		s.r.Msg(types.NewMsgKillRequestContext(unhex(mid), cons), "consumer of a module context, after the restart")
		id2 := s.call("svc", []sdk.AccAddress{o2, o1}, s.A.Consumers[1], 1000, 2, false, false, 0, 0) // the self-providing owners alone
		s.block()
		answer(id2, o2, o1)
		s.modCtl("start", mid, cons)
		id := s.call("svc", []sdk.AccAddress{o2, o1, s.A.SignProv[3], p1, p3}, s.A.Consumers[1], 1000, 2, false, true, 3, 2)
		s.block()
		answer(mid, p2)
		answer(id, o2, o1, s.A.SignProv[3], p1, p3)
		blocks(4)
		answer(mid, p1, p2, p3)
		s.r.Msg(types.NewMsgWithdrawEarnedFees(o2, nil), "whole-owner withdrawal after a restart")
		s.r.Msg(types.NewMsgWithdrawEarnedFees(o1, p1), "")
		blocks(5)
	case 42:
		// a binding disabled before the refund periods are shortened by governance, the refund asked
		// for between the new and the old deadline, with blocks (commits, node restarts) in
		// between; a binding disabled long ago, left unrefunded through a restart, then enabled
		// again and failing a request; several module contexts going through the restart
		s.r.Msg(types.NewMsgDisableServiceBinding("svc", p3, o2), "")
		s.r.Msg(types.NewMsgDisableServiceBinding("svc", p2, o1), "")
		m1 := s.modCreate("svc", []sdk.AccAddress{p1}, cons, 100, 2, true, 3, 4, 1)
		m2 := s.modCreate("svc", []sdk.AccAddress{p1}, cons, 100, 2, true, 4, 4, 1)
		m3 := s.modCreate("svc", []sdk.AccAddress{p1}, cons, 100, 2, true, 5, 4, 1)
		blocks(3)
		np := s.p
		np.ComplaintRetrospect, np.ArbitrationTimeLimit = 20*time.Second, 20*time.Second
		s.r.ChangeParams(np) // lengthened: 15 s -> 40 s
		blocks(4)            // 35 s after the disabling: past the old deadline, before the new one
		s.r.Msg(types.NewMsgRefundServiceDeposit("svc", p3, o2), "after the old deadline, before the new one")
		np.ComplaintRetrospect, np.ArbitrationTimeLimit = 2*time.Second, 2*time.Second
		s.r.ChangeParams(np) // shortened: 40 s -> 4 s
		blocks(2)
		s.r.RestartOpt(true) // p2 and p3 still hold their deposits, long past every deadline
		s.modCtl("start", m1, cons)
		s.modCtl("start", m2, cons)
		s.modCtl("start", m3, cons)
		s.r.Msg(types.NewMsgEnableServiceBinding("svc", p2, nil, o1), "enabled again after the restart")
		id := s.call("svc", []sdk.AccAddress{p2, p3}, cons, 100, 2, false, false, 0, 0)
		blocks(4) // p2 fails its request
		_ = id
		s.r.Msg(types.NewMsgRefundServiceDeposit("svc", p3, o2), "long after the deadline")
		blocks(3)
	case 43:
		// a context that has issued more batches than the new chain has blocks: after a
		// zero-height restart at height 1 its batch counter carries over, its requests are
		// answered inside their window as before
		id := s.call("svc", all, cons, 100, 1, false, true, 1, 12)
		for b := 0; b < 7; b++ {
			s.block()
			answer(id, p1, p2)
		}
		s.r.restartFull(false, true)
		s.ctl("start", id, cons)
		for b := 0; b < 4; b++ {
			s.block()
			answer(id, p1, p2, p3)
		}
		blocks(2)
	case 44:
		// the last batch of a context is answered by everybody before its expiry, then the consumer
		// pauses, lets the expiry block pass and starts again: no batch beyond the total
		id := s.call("svc", all, cons, 100, 4, false, true, 5, 2)
		s.block() // batch 1
		answer(id, p1, p2, p3)
		blocks(5)              // batch 2 of 2
		answer(id, p1, p2, p3) // completed early
		s.ctl("pause", id, cons)
		blocks(5) // its expiry block passes while paused
		s.ctl("start", id, cons)
		blocks(8)
	case 45:
		// one transaction carrying a call and, as its next messages, control operations on the
		// context just created signed by somebody else (a transaction may have several signers);
		// two withdrawals of one owner in one block with an earning in between
		id := s.call("svc", all, cons, 100, 3, false, true, 4, 3)
		s.r.MsgTx(types.NewMsgPauseRequestContext(unhex(id), s.A.Stranger), "a stranger, in the transaction that created the context", true)
		s.r.MsgTx(types.NewMsgUpdateRequestContext(unhex(id), nil, coins(1), 0, 0, 0, s.A.Stranger), "a stranger, same transaction", true)
		s.r.MsgTx(types.NewMsgKillRequestContext(unhex(id), s.A.Consumers[1]), "another consumer, same transaction", true)
		mid := s.modCreate("svc", all, cons, 100, 3, true, 4, 3, 1)
		s.r.Msg(types.NewMsgKillRequestContext(unhex(mid), cons), "consumer of a module context")
		s.block()
		answer(id, p1)
		answer(mid, p1)
		s.r.Msg(types.NewMsgWithdrawEarnedFees(o1, nil), "whole-owner withdrawal")
		answer(id, p2)
		s.r.Msg(types.NewMsgWithdrawEarnedFees(o1, nil), "a second one in the same block, after another earning")
		answer(mid, p2)
		s.r.Msg(types.NewMsgWithdrawEarnedFees(o1, p2), "and a per-provider one")
		blocks(5)
	case 46:
		// outputs that break several clauses of the output schema at once (header and body both of
		// the wrong type): whatever is stored about them is the same on every node
		id := s.call("svc", all, cons, 100, 3, false, true, 4, 3)
		outs := []string{"{ \"header\" : [ ] , \"body\" : \"\\u007b\\u007d\" }", `{"header":1,"body":2}`, `{"header":"x","body":[],"extra":null}`,
			`{"body":"b","header":false}`, `{"header":null,"body":null}`, `{"header":[1,2],"body":[3]}`}
		for b := 0; b < 3; b++ {
			s.block()
			for i, pr := range all {
				for _, rid := range s.pendingOf(id, pr) {
					s.r.Msg(types.NewMsgRespondService(unhex(rid), pr, goodResult, outs[(2*b+i)%len(outs)]), "output with header and body both malformed")
				}
			}
			blocks(3)
		}
	case 47:
		// governance raises the maximum request timeout beyond its default of 100; a request with
		// a timeout of 130 is answered after block h+100 and in its expiry block
		np := s.p
		np.MaxRequestTimeout = 150
		s.r.ChangeParams(np)
		p4 := s.A.SignProv[3]
		s.bind("svc", p4, o2, 1000, price("1"), 140)
		id := s.call("svc", []sdk.AccAddress{p1, p2, p4}, cons, 100, 130, false, false, 0, 0)
		s.block()
		blocks(104)
		answer(id, p1) // h+105
		blocks(24)
		answer(id, p2) // h+130, the expiry block itself
		blocks(3)
	case 48:
		// an update that tops the deposit up and carries the current pricing again, written with
		// other white space; a one-shot call that carries schedule terms it cannot use
		s.r.Msg(types.NewMsgUpdateServiceBinding("svc", p1, coins(500), "{ \"price\" : \"2"+denom+"\" }", 0, "{}", o1), "top-up with the same pricing re-formatted")
		s.r.Msg(types.NewMsgUpdateServiceBinding("svc", p2, coins(300), " "+price("3")+"\n", 0, "{}", o1), "")
		s.r.Msg(types.NewMsgUpdateServiceBinding("svc", p3, coins(100), price("5"), 0, "{}", o2), "top-up with the identical pricing")
		one := s.r.Msg(types.NewMsgCallService("svc", all, cons, goodInput, coins(100), 2, false, false, 2, -1), "one-shot with frequency and unlimited total").NewCtxID
		s.block()
		if one != "" {
			answer(one, p1)
		}
		blocks(9)
	}
	s.done()
}

func firstOf(xs []string) string {
	if len(xs) == 0 {
		return strings.Repeat("00", 58)
	}
	return xs[0]
}
