package main

// C18: identifiers and store keys are unambiguous.
//  (a) generated-input monitor over the real ID functions (round trip, length,
//      injectivity, no aliasing of caller buffers),
//  (b) exact keys of distinct subjects differ,
//  (c) every scan, *as the module performs it*, returns exactly its subject's records
//      (a scratch store is populated through the module's own setters),
//  (d) runtime: each issued request's ID names its context, batch, height and its
//      position in that block's new_batch_request event (stepC18, every block step).

import (
	"bytes"
	"encoding/binary"
	"encoding/json"
	"fmt"
	"math"
	"math/rand"
	"reflect"
	"sort"
	"strings"

	gogotypes "github.com/gogo/protobuf/types"
	tmbytes "github.com/tendermint/tendermint/libs/bytes"

	sdk "github.com/cosmos/cosmos-sdk/types"

	"github.com/irismod/service/keeper"
	"github.com/irismod/service/types"
)

func (m *Mon) stepC18(sc *StepCtx) {
	// a context created in this step carries the ID of the message it was created under:
	// transaction hash followed by the message index (8 bytes, big-endian)
	if sc.Idx >= 0 && sc.Res.TxHash != "" {
		want := sc.Res.TxHash + fmt.Sprintf("%016x", uint64(sc.Res.MsgIdx))
		for id := range sc.Post.Contexts {
			if _, old := sc.Pre.Contexts[id]; old {
				continue
			}
			m.eval("C18")
			m.hit("C18", "context-id-of-its-message", fmt.Sprintf("%s/idx%d", stepClass(sc), clampI(sc.Res.MsgIdx, 0, 3)))
			if id != want {
				m.fail(sc, "C18", "context-id-of-its-message", stepClass(sc), "%s ran as message %d of transaction %.16s.. but the context it created has ID %s", sc.Step.Desc, sc.Res.MsgIdx, sc.Res.TxHash, id)
			}
		}
		if sc.Res.NewCtxID != "" && sc.Step.Kind == "mod" && sc.Res.NewCtxID != want {
			m.fail(sc, "C18", "context-id-of-its-message", "returned", "%s ran as message %d of transaction %.16s.. but returned context ID %s", sc.Step.Desc, sc.Res.MsgIdx, sc.Res.TxHash, sc.Res.NewCtxID)
		}
	}
	if !sc.IsBlock() && sc.info().modSvcCall == nil {
		return
	}
	newReqs := newRequests(sc)
	if len(newReqs) == 0 {
		return
	}
	post := sc.Post
	// first new_batch_request event per context, as the client-side lookup takes it
	evFor := map[string][]map[string]interface{}{}
	for _, e := range sc.Res.Events {
		if e.Type != types.EventTypeNewBatchRequest {
			continue
		}
		cid := strings.ToLower(e.Attrs[types.AttributeKeyRequestContextID])
		if _, seen := evFor[cid]; seen {
			continue
		}
		var arr []map[string]interface{}
		dec := json.NewDecoder(strings.NewReader(e.Attrs[types.AttributeKeyRequests]))
		dec.UseNumber()
		if err := dec.Decode(&arr); err != nil {
			m.fail(sc, "C18", "issue-event-position", "event-json", "new_batch_request event of %.16s does not hold a JSON list: %v", cid, err)
			arr = nil
		}
		evFor[cid] = arr
	}
	for k, ids := range newReqs {
		cid := strings.SplitN(k, "/", 2)[0]
		arr, ok := evFor[cid]
		for pos, id := range ids {
			m.eval("C18")
			r := post.Requests[id]
			_, n, h, idx, _ := reqParts(id)
			m.hit("C18", "issue-event-position", fmt.Sprintf("idx%d/of%d/%s", minInt(int(idx), 4), minInt(len(ids), 4), stepClass(sc)))
			if int(idx) != pos || h != sc.Pre.Height || n != r.RequestContextBatchCounter {
				m.fail(sc, "C18", "request-id-fields", "position", "request %.20s.. is number %d of its batch (issued at %d, batch %d) but its ID says index %d height %d batch %d", id, pos, sc.Pre.Height, r.RequestContextBatchCounter, idx, h, n)
			}
			if !ok {
				if sc.IsBlock() {
					m.fail(sc, "C18", "issue-event-position", "no-event", "no new_batch_request event for context %.16s although requests were issued", cid)
				}
				continue
			}
			if int(idx) >= len(arr) || int(idx) < 0 {
				m.fail(sc, "C18", "issue-event-position", "index-out-of-event", "request index %d but the issue event lists %d requests", idx, len(arr))
				continue
			}
			e := arr[idx]
			prov, _ := e["provider"].(string)
			eh, _ := e["request_height"].(json.Number)
			ex, _ := e["expiration_height"].(json.Number)
			ec, _ := e["request_context_id"].(string)
			if prov != r.Provider.String() || eh.String() != fmt.Sprint(r.RequestHeight) || ex.String() != fmt.Sprint(r.ExpirationHeight) || strings.ToLower(ec) != cid || feeOfEvent(e) != coinsAmt(r.ServiceFee).String() {
				m.fail(sc, "C18", "issue-event-position", "entry-differs", "entry %d of the issue event (%v) is not the request stored under the ID with index %d (provider %s, fee %s, heights %d/%d)", idx, e, idx, r.Provider.String(), r.ServiceFee, r.RequestHeight, r.ExpirationHeight)
			}
		}
	}
}

func feeOfEvent(e map[string]interface{}) string {
	arr, _ := e["service_fee"].([]interface{})
	if len(arr) == 0 {
		return "0"
	}
	c, _ := arr[0].(map[string]interface{})
	s, _ := c["amount"].(string)
	return s
}

// ---------------------------------------------------------------------------

type c18Result struct {
	cases   int
	samples []string
}

func u64s() []uint64 {
	return []uint64{0, 1, 2, 255, 256, 65535, 65536, 1 << 32, math.MaxInt64, math.MaxInt64 + 1, math.MaxUint64}
}

func staticC18(a *App, m *Mon, seed int64, nRandom int) {
	rng := rand.New(rand.NewSource(seed))
	sc := &StepCtx{Idx: -1, Step: &Step{Kind: "static", Desc: "generated inputs to the ID and key functions"}, Res: &StepResult{OK: true}}
	m.run = &Run{hist: &History{Name: "c18-static"}}
	if m.seenSig == nil {
		m.seenSig, m.broken = map[string]bool{}, map[string]bool{}
	}

	// ---------- (a) context IDs ----------
	var hashes [][]byte
	hashes = append(hashes, bytes.Repeat([]byte{0x00}, 32), bytes.Repeat([]byte{0xff}, 32))
	for i := 0; i < 6+nRandom/50; i++ {
		h := make([]byte, 32)
		rng.Read(h)
		hashes = append(hashes, h)
	}
	spare := make([]byte, 32, 96) // a hash slice with spare capacity, as a caller may pass
	rng.Read(spare)
	hashes = append(hashes, spare)
	idx64 := []int64{0, 1, 2, 255, 256, math.MaxInt32, math.MaxInt64}
	seen := map[string]string{}
	type gen struct {
		id   tmbytes.HexBytes
		hash []byte
		idx  int64
	}
	var made []gen
	for _, h := range hashes {
		for _, i := range idx64 {
			m.eval("C18")
			want := append([]byte(nil), h...)
			id := types.GenerateRequestContextID(h, i)
			m.hit("C18", "context-id", fmt.Sprintf("cap%v/idx%d", cap(h) > len(h), clampI(i, 0, 3)))
			if len(id) != 40 {
				m.fail(sc, "C18", "context-id", "length", "context ID of length %d", len(id))
				continue
			}
			gh, gi, err := types.SplitRequestContextID(id)
			if err != nil || !bytes.Equal(gh, want) || gi != i {
				m.fail(sc, "C18", "context-id", "round-trip", "context ID of (%x,%d) decodes to (%x,%d,%v)", want, i, []byte(gh), gi, err)
			}
			key := fmt.Sprintf("%x/%d", want, i)
			if prev, dup := seen[hexs(id)]; dup && prev != key {
				m.fail(sc, "C18", "context-id", "collision", "inputs %s and %s give the same context ID", prev, key)
			}
			seen[hexs(id)] = key
			made = append(made, gen{id, want, i})
			// the caller's hash may sit inside a larger buffer (a transaction's bytes): what follows
			// the hash there must not be written
			buf := make([]byte, len(want)+16)
			copy(buf, want)
			for k := len(want); k < len(buf); k++ {
				buf[k] = 0xA5
			}
			id2 := types.GenerateRequestContextID(buf[:len(want)], i)
			for k := len(want); k < len(buf); k++ {
				if buf[k] != 0xA5 {
					m.fail(sc, "C18", "context-id", "aliased-buffer", "building a context ID wrote into the caller's buffer behind the transaction hash")
					break
				}
			}
			if !bytes.Equal(id2, id) {
				m.fail(sc, "C18", "context-id", "round-trip", "the same inputs gave two different context IDs depending on the caller's buffer")
			}
		}
	}
	// IDs generated earlier must still decode to their inputs after later calls
	for _, g := range made {
		gh, gi, err := types.SplitRequestContextID(g.id)
		if err != nil || !bytes.Equal(gh, g.hash) || gi != g.idx {
			m.fail(sc, "C18", "context-id", "aliased-buffer", "a context ID built from (%x.., %d) later reads (%x.., %d): it shares memory with the caller's hash slice", g.hash[:4], g.idx, []byte(gh)[:4], gi)
			break
		}
	}
	m.hit("C18", "context-id-stable-after-later-calls", "")

	// ---------- (a) request IDs ----------
	ctxIDs := []tmbytes.HexBytes{bytes.Repeat([]byte{0}, 40), bytes.Repeat([]byte{0xff}, 40)}
	for i := 0; i < 4; i++ {
		b := make([]byte, 40, 80)
		rng.Read(b)
		ctxIDs = append(ctxIDs, b)
	}
	seenR := map[string]string{}
	type rgen struct {
		id tmbytes.HexBytes
		c  []byte
		n  uint64
		h  int64
		i  int16
	}
	var rmade []rgen
	for _, c := range ctxIDs {
		for _, n := range u64s() {
			for _, h := range []int64{0, 1, 255, 256, 1 << 32, math.MaxInt64} {
				for _, i := range []int16{0, 1, 9, 255, 256, math.MaxInt16, -1} {
					m.eval("C18")
					want := append([]byte(nil), c...)
					id := types.GenerateRequestID(c, n, h, i)
					m.hit("C18", "request-id", fmt.Sprintf("n%d/h%d/i%d", clampI(int64(n%7), 0, 6), clampI(h, 0, 2), clampI(int64(i), -1, 2)))
					if len(id) != 58 {
						m.fail(sc, "C18", "request-id", "length", "request ID of length %d", len(id))
						continue
					}
					gc, gn, gh, gi, err := types.SplitRequestID(id)
					if err != nil || !bytes.Equal(gc, want) || gn != n || gh != h || gi != i {
						m.fail(sc, "C18", "request-id", "round-trip", "request ID of (%x..,%d,%d,%d) decodes to (%x..,%d,%d,%d,%v)", want[:4], n, h, i, []byte(gc)[:4], gn, gh, gi, err)
					}
					key := fmt.Sprintf("%x/%d/%d/%d", want, n, h, i)
					if prev, dup := seenR[hexs(id)]; dup && prev != key {
						m.fail(sc, "C18", "request-id", "collision", "inputs %s and %s give the same request ID", prev, key)
					}
					seenR[hexs(id)] = key
					// hex form used by clients
					if back, err := types.ConvertRequestID(id.String()); err != nil || !bytes.Equal(back, id) {
						m.fail(sc, "C18", "request-id", "hex-form", "request ID does not survive its hex string form")
					}
					// a client that splits an ID and builds the ID of a sibling request from the context
					// part it got back holds a slice with room behind it; so does one that keeps the
					// context ID inside a larger buffer. Building the sibling must not touch either.
					if err == nil && len(gc) == len(want) {
						before := append([]byte(nil), id...)
						sib := types.GenerateRequestID(gc, n+1, h, i)
						sc2, sn, sh, si, serr := types.SplitRequestID(sib)
						if !bytes.Equal(id, before) {
							m.fail(sc, "C18", "request-id", "aliased-buffer", "building the ID of (%x..,%d,%d,%d) from the context part of an earlier ID rewrote that earlier ID", want[:4], n+1, h, i)
						} else if serr != nil || !bytes.Equal(sc2, want) || sn != n+1 || sh != h || si != i {
							m.fail(sc, "C18", "request-id", "round-trip", "request ID built from a split context ID decodes to (%x..,%d,%d,%d,%v), want (%x..,%d,%d,%d)", []byte(sc2)[:4], sn, sh, si, serr, want[:4], n+1, h, i)
						}
						buf := make([]byte, len(want)+32)
						copy(buf, want)
						for k := len(want); k < len(buf); k++ {
							buf[k] = 0xA5
						}
						id2 := types.GenerateRequestID(buf[:len(want)], n, h, i)
						for k := len(want); k < len(buf); k++ {
							if buf[k] != 0xA5 {
								m.fail(sc, "C18", "request-id", "aliased-buffer", "building a request ID wrote into the caller's buffer behind the context ID")
								break
							}
						}
						if !bytes.Equal(id2, id) {
							m.fail(sc, "C18", "request-id", "round-trip", "the same inputs gave two different request IDs depending on the caller's buffer")
						}
					}
					if len(rmade) < 400 {
						rmade = append(rmade, rgen{id, want, n, h, i})
					}
				}
			}
		}
	}
	for _, g := range rmade {
		gc, gn, gh, gi, err := types.SplitRequestID(g.id)
		if err != nil || !bytes.Equal(gc, g.c) || gn != g.n || gh != g.h || gi != g.i {
			m.fail(sc, "C18", "request-id", "aliased-buffer", "a request ID built earlier changed after later calls")
			break
		}
	}

	// ---------- (b) exact keys of distinct subjects differ ----------
	act := MakeActors()
	names := append([]string{"a", "ab", "a-b", "a_b", "a0", "A"}, serviceNames...)
	var provs []sdk.AccAddress
	provs = append(provs, act.SignProv...)
	provs = append(provs, act.OddProv...)
	for l := 1; l <= 40; l += 1 + rng.Intn(4) {
		b := make([]byte, l)
		rng.Read(b)
		provs = append(provs, b)
		if l > 2 {
			provs = append(provs, append([]byte(nil), b[:l-1]...)) // a prefix of it
		}
	}
	provs = append(provs, sdk.AccAddress("stake"), sdk.AccAddress("s"), sdk.AccAddress{0x00}, sdk.AccAddress{0x00, 0x00})
	// addresses that continue a service NAME: ("ab", P) and ("a", 'b'|P) are the same bytes when a
	// name and an address are glued together without a separator or a length
	provs = append(provs, append(sdk.AccAddress("b"), act.SignProv[0]...), append(sdk.AccAddress("0"), act.SignProv[0]...), append(sdk.AccAddress("-b"), act.SignProv[1]...))
	owners := act.Owners
	heights := []int64{0, 1, 255, 256, 65536, 1 << 40, math.MaxInt64}
	ids := ctxIDs
	keyOwner := map[string]string{}
	put := func(kind string, key []byte, subject string) {
		m.eval("C18")
		if prev, dup := keyOwner[string(key)]; dup && prev != kind+":"+subject {
			m.fail(sc, "C18", "keys-distinct", kind, "store key %x is built for two different records: %s and %s:%s", key, prev, kind, subject)
		}
		keyOwner[string(key)] = kind + ":" + subject
	}
	for _, n := range names {
		put("definition", types.GetServiceDefinitionKey(n), n)
		for _, p := range provs {
			ps := hexs(p)
			put("binding", types.GetServiceBindingKey(n, p), n+"/"+ps)
			put("pricing", types.GetPricingKey(n, p), n+"/"+ps)
			for _, o := range owners {
				put("owner-binding", types.GetOwnerServiceBindingKey(o, n, p), hexs(o)+"/"+n+"/"+ps)
			}
			for _, c := range act.Consumers {
				put("volume", types.GetRequestVolumeKey(c, n, p), hexs(c)+"/"+n+"/"+ps)
			}
			for _, h := range heights[:3] {
				rid := types.GenerateRequestID(ids[2], 1, h, 0)
				put("active", types.GetActiveRequestKey(n, p, h, rid), fmt.Sprintf("%s/%s/%d/%x", n, ps, h, []byte(rid)))
			}
		}
	}
	for _, p := range provs {
		ps := hexs(p)
		put("owner-of", types.GetOwnerKey(p), ps)
		put("earned", types.GetEarnedFeesKey(p, denom), ps)
		for _, o := range owners {
			put("owner-provider", types.GetOwnerProviderKey(o, p), hexs(o)+"/"+ps)
		}
	}
	for _, o := range owners {
		put("withdraw", types.GetWithdrawAddrKey(o), hexs(o))
		put("owner-earned", types.GetOwnerEarnedFeesKey(o, denom), hexs(o))
	}
	for _, id := range ids {
		put("context", types.GetRequestContextKey(id), hexs(id))
		put("expiry-ptr", types.GetExpiredRequestBatchHeightKey(id), hexs(id))
		put("start-ptr", types.GetNewRequestBatchHeightKey(id), hexs(id))
		for _, h := range heights {
			put("expiry-queue", types.GetExpiredRequestBatchKey(id, h), fmt.Sprintf("%x/%d", []byte(id), h))
			put("start-queue", types.GetNewRequestBatchKey(id, h), fmt.Sprintf("%x/%d", []byte(id), h))
		}
		for _, n := range u64s()[:6] {
			rid := types.GenerateRequestID(id, n, 7, 3)
			put("request", types.GetRequestKey(rid), hexs(rid))
			put("active-id", types.GetActiveRequestKeyByID(rid), hexs(rid))
			put("response", types.GetResponseKey(rid), hexs(rid))
		}
	}
	m.hit("C18", "keys-distinct", fmt.Sprintf("keys%d", len(keyOwner)/1000))

	// ---------- (c) scans as the module performs them ----------
	scanC18(a, m, sc, rng, names[:8], provs, owners, act, false)
	// the same universe written the way a genesis import writes it (SetServiceBindingForGenesis
	// builds the ownership indexes and the price terms itself), and the genesis validated
	scanC18(a, m, sc, rng, names[:8], provs, owners, act, true)
}

func scanC18(a *App, m *Mon, sc *StepCtx, rng *rand.Rand, names []string, provs []sdk.AccAddress, owners []sdk.AccAddress, act *Actors, viaGenesis bool) {
	k := a.k
	ctx, _ := a.baseCtx.CacheContext()
	a.k.SetParams(ctx, types.DefaultParams())
	// every provider gets an owner; every (name, provider) a binding
	var genBindings []types.ServiceBinding
	ownerOf := map[string]sdk.AccAddress{}
	for i, p := range provs {
		o := owners[i%len(owners)]
		ownerOf[hexs(p)] = o
		if !viaGenesis {
			k.SetOwner(ctx, p, o)
			k.SetOwnerProvider(ctx, o, p)
		}
		k.SetEarnedFees(ctx, p, sdk.NewCoins(sdk.NewCoin(denom, sdk.NewInt(int64(1000+i)))))
	}
	for _, n := range names {
		for _, p := range provs {
			b := types.NewServiceBinding(n, p, coins(10), `{"price":"1stake"}`, 1, "{}", true, genesisTime, ownerOf[hexs(p)])
			if viaGenesis {
				genBindings = append(genBindings, b)
				if err := k.SetServiceBindingForGenesis(ctx, b); err != nil {
					m.fail(sc, "C18", "scan-exact", "import-refuses-binding", "import of binding (%s, %x) of the key universe fails: %v", n, []byte(p), err)
				}
				continue
			}
			k.SetServiceBinding(ctx, b)
			k.SetOwnerServiceBinding(ctx, b)
		}
	}
	if viaGenesis {
		// a genesis made of these subjects is valid: validation must not take two of them for one
		var defs []types.ServiceDefinition
		for _, n := range names {
			defs = append(defs, types.NewServiceDefinition(n, "d", nil, owners[0], "a", goodSchemas))
		}
		gs := types.NewGenesisState(types.DefaultParams(), defs, genBindings, map[string][]byte{}, map[string]*types.RequestContext{})
		m.eval("C18")
		m.hit("C18", "keys-distinct", "genesis-validation")
		if err := types.ValidateGenesis(*gs); err != nil {
			m.fail(sc, "C18", "keys-distinct", "genesis-validation", "a genesis holding one binding per (service, provider) of the key universe - names that are prefixes of each other, provider addresses of every length - is refused: %v", err)
		}
	}
	for i, o := range owners {
		k.SetOwnerEarnedFees(ctx, o, sdk.NewCoins(sdk.NewCoin(denom, sdk.NewInt(int64(77+i)))))
	}
	// contexts with batches 1, 256, 2^32 and requests 0..2, some active, some answered
	var ctxIDs []tmbytes.HexBytes
	for i := 0; i < 3; i++ {
		b := make([]byte, 40)
		rng.Read(b)
		ctxIDs = append(ctxIDs, b)
	}
	// a context ID that shares a long prefix with another one
	near := append([]byte(nil), ctxIDs[0]...)
	near[39] ^= 1
	ctxIDs = append(ctxIDs, near)
	batches := []uint64{1, 2, 255, 256, 511, 65535, 1 << 32, 1<<32 - 1, 1<<63 - 1, 1 << 63, 1<<64 - 2, 1<<64 - 1}
	type rk struct {
		ctx   string
		batch uint64
	}
	reqsOf := map[rk][]string{}
	respOf := map[rk][]string{}
	activeOfBatch := map[rk][]string{}
	activeOfBinding := map[string][]string{}
	for ci, cid := range ctxIDs {
		for _, bn := range batches {
			for i := 0; i < 3; i++ {
				p := provs[(ci*7+i*3+int(bn%5))%len(provs)]
				n := names[(ci+i)%len(names)]
				h := int64(100 + i)
				rid := types.GenerateRequestID(cid, bn, h, int16(i))
				k.SetCompactRequest(ctx, rid, types.NewCompactRequest(cid, bn, p, coins(1), h, h+5))
				key := rk{hexs(cid), bn}
				reqsOf[key] = append(reqsOf[key], hexs(rid))
				if i != 1 {
					k.AddActiveRequest(ctx, n, p, h+5, rid)
					activeOfBatch[key] = append(activeOfBatch[key], hexs(rid))
					activeOfBinding[n+"/"+hexs(p)] = append(activeOfBinding[n+"/"+hexs(p)], hexs(rid))
				} else {
					k.SetResponse(ctx, rid, types.NewResponse(p, act.Consumers[0], goodResult, goodOutput, cid, bn))
					respOf[key] = append(respOf[key], hexs(rid))
				}
			}
		}
	}
	// every provider of the universe has one pending request on the first service, so that
	// each by-binding scan has neighbours to confuse its subject with
	for pi, p := range provs {
		cid, bn, h := ctxIDs[0], uint64(777), int64(300)
		rid := types.GenerateRequestID(cid, bn, h, int16(pi))
		k.SetCompactRequest(ctx, rid, types.NewCompactRequest(cid, bn, p, coins(1), h, h+5))
		k.AddActiveRequest(ctx, names[0], p, h+5, rid)
		key := rk{hexs(cid), bn}
		reqsOf[key] = append(reqsOf[key], hexs(rid))
		activeOfBatch[key] = append(activeOfBatch[key], hexs(rid))
		activeOfBinding[names[0]+"/"+hexs(p)] = append(activeOfBinding[names[0]+"/"+hexs(p)], hexs(rid))
	}
	qHeights := []int64{1, 255, 256, 257, 65535, 65536, 1<<32 - 1, 1 << 32}
	expAt := map[int64][]string{}
	newAt := map[int64][]string{}
	for i, cid := range ctxIDs {
		k.SetRequestContext(ctx, cid, types.RequestContext{ServiceName: names[0], Consumer: act.Consumers[0], Providers: provs[:1], Input: goodInput, State: types.RUNNING})
		h1, h2 := qHeights[i%len(qHeights)], qHeights[(i+2)%len(qHeights)]
		k.AddRequestBatchExpiration(ctx, cid, h1)
		expAt[h1] = append(expAt[h1], hexs(cid))
		k.AddNewRequestBatch(ctx, cid, h2)
		newAt[h2] = append(newAt[h2], hexs(cid))
	}

	collect := func(it sdk.Iterator) (keys [][]byte, vals [][]byte) {
		defer it.Close()
		for ; it.Valid(); it.Next() {
			keys = append(keys, append([]byte(nil), it.Key()...))
			vals = append(vals, append([]byte(nil), it.Value()...))
		}
		return
	}
	cmp := func(rule, subject string, got, want []string) {
		if viaGenesis {
			rule += "@import"
		}
		sort.Strings(got)
		sort.Strings(want)
		m.eval("C18")
		m.hit("C18", "scan-exact", rule)
		if !sameStrings(got, want) {
			m.fail(sc, "C18", "scan-exact", rule, "%s of %s returns %d records, its subject has %d (extra or missing records of other subjects)", rule, subject, len(got), len(want))
		}
	}
	if !viaGenesis {
		// listings as the query server performs them, for a subject with more records than any
		// default page size: 130 further providers bound to the first name, 120 requests pending
		// for one of them
		big := names[0]
		var want []string
		for _, p := range provs {
			want = append(want, big+"/"+hexs(p))
		}
		for i := 0; i < 130; i++ {
			p := sdk.AccAddress(sha256Sum(fmt.Sprint("c18-many-", i))[:20])
			b := types.NewServiceBinding(big, p, coins(10), `{"price":"1stake"}`, 1, "{}", true, genesisTime, owners[0])
			k.SetServiceBinding(ctx, b)
			want = append(want, big+"/"+hexs(p))
		}
		if res, err := k.Bindings(sdk.WrapSDKContext(ctx), &types.QueryBindingsRequest{ServiceName: big}); err == nil {
			var got []string
			for _, b := range res.ServiceBindings {
				got = append(got, b.ServiceName+"/"+hexs(b.Provider))
			}
			cmp("bindings-of-service:query", big, got, want)
		}
		// (the extra bindings are removed again so that the scans below see the universe only)
		for i := 0; i < 130; i++ {
			p := sdk.AccAddress(sha256Sum(fmt.Sprint("c18-many-", i))[:20])
			ctx.KVStore(a.app.GetKey(types.StoreKey)).Delete(types.GetServiceBindingKey(big, p))
		}
	}
	for _, n := range names {
		_, vals := collect(k.ServiceBindingsIterator(ctx, n))
		var got, want []string
		for _, v := range vals {
			var b types.ServiceBinding
			if b.Unmarshal(v) == nil {
				got = append(got, b.ServiceName+"/"+hexs(b.Provider))
			}
		}
		for _, p := range provs {
			want = append(want, n+"/"+hexs(p))
		}
		cmp("bindings-of-service", n, got, want)
		for _, o := range owners {
			var got2, want2 []string
			for _, b := range k.GetOwnerServiceBindings(ctx, o, n) {
				got2 = append(got2, b.ServiceName+"/"+hexs(b.Provider))
			}
			for _, p := range provs {
				if ownerOf[hexs(p)].Equals(o) {
					want2 = append(want2, n+"/"+hexs(p))
				}
			}
			cmp("bindings-of-service-and-owner", n+"/"+hexs(o), got2, want2)
		}
		for _, p := range provs {
			_, vals := collect(k.ActiveRequestsIterator(ctx, n, p))
			var got3 []string
			for _, v := range vals {
				var bv gogotypes.BytesValue
				if bv.Unmarshal(v) == nil {
					got3 = append(got3, hexs(bv.Value))
				}
			}
			cmp("pending-requests-of-binding", n+"/"+hexs(p), got3, append([]string(nil), activeOfBinding[n+"/"+hexs(p)]...))
		}
	}
	for _, o := range owners {
		keys, _ := collect(k.OwnerProvidersIterator(ctx, o))
		var got, want []string
		for _, kk := range keys {
			got = append(got, hexs(kk[1+len(o):]))
		}
		for _, p := range provs {
			if ownerOf[hexs(p)].Equals(o) {
				want = append(want, hexs(p))
			}
		}
		cmp("providers-of-owner", hexs(o), got, want)
		fees, _ := k.GetOwnerEarnedFees(ctx, o)
		idx := 0
		for i := range owners {
			if owners[i].Equals(o) {
				idx = i
			}
		}
		cmp("earnings-of-owner", hexs(o), []string{fees.String()}, []string{fmt.Sprintf("%d%s", 77+idx, denom)})
	}
	for _, cid := range ctxIDs {
		for _, bn := range append(batches, 0, 3, 254, 257, 512) {
			key := rk{hexs(cid), bn}
			keys, _ := collect(k.RequestsIteratorByReqCtx(ctx, cid, bn))
			var got []string
			for _, kk := range keys {
				got = append(got, hexs(kk[1:]))
			}
			cmp("requests-of-batch", fmt.Sprintf("%.8x/%d", []byte(cid), bn), got, append([]string(nil), reqsOf[key]...))
			keys, _ = collect(k.ActiveRequestsIteratorByReqCtx(ctx, cid, bn))
			got = nil
			for _, kk := range keys {
				got = append(got, hexs(kk[1:]))
			}
			cmp("pending-requests-of-batch", fmt.Sprintf("%.8x/%d", []byte(cid), bn), got, append([]string(nil), activeOfBatch[key]...))
			keys, _ = collect(k.ResponsesIteratorByReqCtx(ctx, cid, bn))
			got = nil
			for _, kk := range keys {
				got = append(got, hexs(kk[1:]))
			}
			cmp("responses-of-batch", fmt.Sprintf("%.8x/%d", []byte(cid), bn), got, append([]string(nil), respOf[key]...))
		}
	}
	for _, h := range append(qHeights, 0, 2, 254, 511) {
		var got []string
		callQueueScan(k, "IterateExpiredRequestBatch", ctx, h, func(id tmbytes.HexBytes) { got = append(got, hexs(id)) })
		cmp("expiry-queue-of-height", fmt.Sprint(h), got, append([]string(nil), expAt[h]...))
		got = nil
		callQueueScan(k, "IterateNewRequestBatch", ctx, h, func(id tmbytes.HexBytes) { got = append(got, hexs(id)) })
		cmp("start-queue-of-height", fmt.Sprint(h), got, append([]string(nil), newAt[h]...))
	}
	// earnings of a provider: read, then delete and verify nobody else lost anything
	for i, p := range provs {
		fees, _ := k.GetEarnedFees(ctx, p)
		// several entries of provs may be equal addresses: expected = the last write
		want := int64(0)
		for j, q := range provs {
			if q.Equals(p) {
				want = int64(1000 + j)
			}
		}
		cmp("earnings-of-provider", fmt.Sprintf("%x(%dB)", []byte(p), len(p)), []string{fees.String()}, []string{fmt.Sprintf("%d%s", want, denom)})
		if i%3 == 0 {
			bctx, _ := ctx.CacheContext()
			k.DeleteEarnedFees(bctx, p)
			var lost []string
			for _, q := range provs {
				if q.Equals(p) {
					continue
				}
				f, _ := k.GetEarnedFees(bctx, q)
				f0, _ := k.GetEarnedFees(ctx, q)
				if !f.IsEqual(f0) {
					lost = append(lost, hexs(q))
				}
			}
			own, _ := k.GetEarnedFees(bctx, p)
			m.eval("C18")
			m.hit("C18", "scan-exact", "delete-earnings-of-provider")
			if len(lost) > 0 || !own.IsZero() {
				m.fail(sc, "C18", "scan-exact", "delete-earnings-of-provider", "deleting the earnings of %x (%d bytes) also changed those of %v (own left: %s)", []byte(p), len(p), short8(lost), own)
			}
		}
	}
	_ = binary.BigEndian
}

// callQueueScan calls one of the keeper's two queue scans by name, through reflection, so that
// the harness keeps compiling when the shape of the visitor changes (a visitor that returns
// "stop", say): the visitor built here reports every context ID it is handed and returns zero
// values.
func callQueueScan(k keeper.Keeper, method string, ctx sdk.Context, h int64, seen func(id tmbytes.HexBytes)) {
	mv := reflect.ValueOf(k).MethodByName(method)
	if !mv.IsValid() || mv.Type().NumIn() != 3 || mv.Type().In(2).Kind() != reflect.Func {
		panic("harness: keeper." + method + " has an unexpected shape")
	}
	ft := mv.Type().In(2)
	visitor := reflect.MakeFunc(ft, func(args []reflect.Value) []reflect.Value {
		for _, a := range args {
			if id, ok := a.Interface().(tmbytes.HexBytes); ok {
				seen(id)
				break
			}
		}
		out := make([]reflect.Value, ft.NumOut())
		for i := range out {
			out[i] = reflect.Zero(ft.Out(i))
		}
		return out
	})
	mv.Call([]reflect.Value{reflect.ValueOf(ctx), reflect.ValueOf(h), visitor})
}
