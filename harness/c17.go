package main

// C17: differential monitor at sampled reachable states: every gRPC query method and
// every legacy querier route, with arguments drawn from the existing and non-existing
// names / owners / providers / contexts / batches / request IDs of that state, against
// a ground truth decoded from the raw store scan. Also serves C15 (listings).

import (
	"bytes"
	"context"
	"encoding/json"
	"fmt"
	"sort"
	"strings"

	abci "github.com/tendermint/tendermint/abci/types"

	"github.com/cosmos/cosmos-sdk/codec"
	sdk "github.com/cosmos/cosmos-sdk/types"

	"github.com/irismod/service/keeper"
	"github.com/irismod/service/types"
)

type c17Mon struct {
	m     *Mon
	every int
}

func attachC17(m *Mon, every int) {
	c := &c17Mon{m: m, every: every}
	m.c17 = c
	m.extra = append(m.extra, func(sc *StepCtx) {
		if sc.Idx >= 0 && (sc.Idx+1)%everyFor(sc, c.every, 2) == 0 {
			c.sample(sc)
		}
	})
	m.atFinish = append(m.atFinish, func(r *Run) {
		c.sample(&StepCtx{Idx: len(r.hist.Steps) - 1, Step: &Step{Kind: "end", Desc: "end of history"}, Res: &StepResult{OK: true}, Pre: r.pre, Post: r.pre, run: r})
	})
}

type pm interface{ Marshal() ([]byte, error) }

func pbz(x pm) []byte {
	b, err := x.Marshal()
	must(err)
	return b
}

func sortedBytes(xs [][]byte) [][]byte {
	out := append([][]byte(nil), xs...)
	sort.Slice(out, func(i, j int) bool { return bytes.Compare(out[i], out[j]) < 0 })
	return out
}

func sameSet(a, b [][]byte) bool {
	if len(a) != len(b) {
		return false
	}
	a, b = sortedBytes(a), sortedBytes(b)
	for i := range a {
		if !bytes.Equal(a[i], b[i]) {
			return false
		}
	}
	return true
}

func compactJSON(b []byte) []byte {
	var out bytes.Buffer
	if err := json.Compact(&out, b); err != nil {
		return b
	}
	return out.Bytes()
}

func jsonElems(b []byte) ([][]byte, bool) {
	var raw []json.RawMessage
	if err := json.Unmarshal(b, &raw); err != nil {
		return nil, false
	}
	out := make([][]byte, len(raw))
	for i, r := range raw {
		out[i] = compactJSON(r)
	}
	return out, true
}

// truthRequest reconstructs the full request from the compact record and its context.
func truthRequest(s *Snap, id string) (types.Request, bool) {
	cr, ok := s.Requests[id]
	if !ok {
		return types.Request{}, false
	}
	rc, ok := s.Contexts[hexs(cr.RequestContextId)]
	if !ok {
		return types.Request{}, false
	}
	return types.Request{Id: unhex(id), ServiceName: rc.ServiceName, Provider: cr.Provider, Consumer: rc.Consumer, Input: rc.Input,
		ServiceFee: cr.ServiceFee, SuperMode: rc.SuperMode, RequestHeight: cr.RequestHeight, ExpirationHeight: cr.ExpirationHeight,
		RequestContextId: cr.RequestContextId, RequestContextBatchCounter: cr.RequestContextBatchCounter}, true
}

func (c *c17Mon) sample(sc *StepCtx) { c.sampleVia(sc, false) }

// sampleVia: with abciRouted (commit-mode histories, right after a Commit) both query
// interfaces are asked the way a client asks a node - through the application's ABCI Query
// endpoint on the committed state: gRPC methods by their service path through the gRPC query
// router the application registered (module.go RegisterQueryService), legacy routes as
// "custom/service/<route>" through baseapp's query router.
func (c *c17Mon) sampleVia(sc *StepCtx, abciRouted bool) {
	m := c.m
	w := sc.run.w
	s := sc.Post
	k := w.a.k
	ctx, _ := w.curCtx().CacheContext()
	gctx := sdk.WrapSDKContext(ctx)
	amino := w.a.app.LegacyAmino()
	legacy := keeper.NewQuerier(k, amino)
	if routed := w.a.app.QueryRouter().Route(types.QuerierRoute); routed != nil && sc.Idx%2 == 0 {
		legacy = routed // the querier as the application registered it (module.go)
	}
	var q types.QueryServer = k
	if abciRouted {
		cctx := w.clientCtx()
		q = clientAsServer{types.NewQueryClient(cctx)}
		legacy = func(_ sdk.Context, path []string, req abci.RequestQuery) ([]byte, error) {
			res := w.a.app.Query(abci.RequestQuery{Path: "custom/" + types.QuerierRoute + "/" + strings.Join(path, "/"), Data: req.Data})
			if !res.IsOK() {
				return nil, fmt.Errorf("%s", res.Log)
			}
			return res.Value, nil
		}
		m.stats.Hits["C17/asked-through-abci-query"]++
	}
	lq := func(route string, params interface{}) ([]byte, error) {
		var data []byte
		if params != nil {
			bz, err := amino.MarshalJSON(params)
			if err != nil {
				return nil, fmt.Errorf("harness-cannot-encode: %v", err)
			}
			data = bz
		}
		var out []byte
		var err error
		if pan, _ := guard(func() { out, err = legacy(ctx, []string{route}, abci.RequestQuery{Data: data}) }); pan != "" {
			return nil, fmt.Errorf("PANIC: %s", pan)
		}
		return out, err
	}
	aj := func(x interface{}) []byte {
		bz, err := amino.MarshalJSON(x)
		must(err)
		return compactJSON(bz)
	}
	judge := func(rule, sit string) { m.eval("C17"); m.hit("C17", rule, sit) }
	bad := func(rule, detail, f string, a ...interface{}) {
		m.fail(sc, "C17", rule, detail, f+" (state after: "+sc.Step.Desc+")", a...)
	}

	// ---- argument universes ----
	names := map[string]bool{"nosuchsvc": true}
	for n := range s.Defs {
		names[n] = true
	}
	for _, n := range serviceNames {
		names[n] = true
	}
	act := MakeActors()
	provs := map[string]sdk.AccAddress{}
	for _, p := range append(append([]sdk.AccAddress{}, act.SignProv...), act.OddProv...) {
		provs[hexs(p)] = p
	}
	for _, b := range s.Bindings {
		provs[hexs(b.Provider)] = b.Provider
	}
	owners := append([]sdk.AccAddress{}, act.Owners...)
	owners = append(owners, act.Stranger)
	if w.hasModSvc {
		owners = append(owners, w.a.modSvcProvider)
	}
	nameList := make([]string, 0, len(names))
	for n := range names {
		nameList = append(nameList, n)
	}
	sort.Strings(nameList)
	provKeys := make([]string, 0, len(provs))
	for p := range provs {
		provKeys = append(provKeys, p)
	}
	sort.Strings(provKeys)

	// ---- definition ----
	for _, n := range nameList {
		d, exists := s.Defs[n]
		judge("definition", fmt.Sprintf("exists%v", exists))
		res, err := q.Definition(gctx, &types.QueryDefinitionRequest{ServiceName: n})
		lres, lerr := lq(types.QueryDefinition, types.QueryDefinitionParams{ServiceName: n})
		if exists {
			if err != nil || res.ServiceDefinition == nil || !bytes.Equal(pbz(res.ServiceDefinition), pbz(&d)) {
				bad("definition", "grpc", "gRPC definition(%s) = %v, %v; stored record differs", n, res, err)
			}
			if lerr != nil || !bytes.Equal(compactJSON(lres), aj(d)) {
				bad("definition", "legacy", "legacy definition(%s) differs from the stored record (err %v)", n, lerr)
			}
		} else {
			if err == nil && res.ServiceDefinition != nil && res.ServiceDefinition.Name != "" {
				bad("definition", "grpc-phantom", "gRPC definition(%s) returns a record although none is stored", n)
			}
			if lerr == nil && !bytes.Equal(compactJSON(lres), aj(types.ServiceDefinition{})) {
				bad("definition", "legacy-phantom", "legacy definition(%s) returns a record although none is stored", n)
			}
		}
	}

	// ---- binding, bindings, requests-of-binding, fees ----
	for _, n := range nameList {
		// by service
		var want [][]byte
		var wantJ [][]byte
		for _, b := range s.Bindings {
			if b.ServiceName == n {
				bb := b
				want = append(want, pbz(&bb))
				wantJ = append(wantJ, aj(bb))
			}
		}
		judge("bindings-of-service", fmt.Sprintf("n%d", minInt(len(want), 4)))
		m.hit("C15", "listing-by-service", fmt.Sprintf("n%d", minInt(len(want), 4)))
		res, err := q.Bindings(gctx, &types.QueryBindingsRequest{ServiceName: n})
		var got [][]byte
		if err == nil {
			for _, b := range res.ServiceBindings {
				got = append(got, pbz(b))
			}
		}
		if err != nil || !sameSet(got, want) {
			bad("bindings-of-service", "grpc", "gRPC bindings(%s) returns %d bindings, the store holds %d for that service (err %v)", n, len(got), len(want), err)
			m.fail(sc, "C15", "listing-by-service", "", "listing the bindings of %s yields %d bindings, the store holds %d with that service", n, len(got), len(want))
		}
		lres, lerr := lq(types.QueryBindings, types.QueryBindingsParams{ServiceName: n})
		if el, ok := jsonElems(lres); lerr != nil || !ok || !sameSet(el, wantJ) {
			if !(len(want) == 0 && lerr == nil && string(compactJSON(lres)) == "[]") {
				bad("bindings-of-service", "legacy", "legacy bindings(%s) returns %d bindings, the store holds %d (err %v)", n, len(el), len(want), lerr)
			}
		}
		for _, o := range owners {
			var wantO, wantOJ [][]byte
			for _, b := range s.Bindings {
				if b.ServiceName == n && bytes.Equal(b.Owner, o) {
					bb := b
					wantO = append(wantO, pbz(&bb))
					wantOJ = append(wantOJ, aj(bb))
				}
			}
			judge("bindings-of-service-and-owner", fmt.Sprintf("n%d", minInt(len(wantO), 3)))
			m.hit("C15", "listing-by-service-and-owner", fmt.Sprintf("n%d", minInt(len(wantO), 3)))
			var resO *types.QueryBindingsResponse
			var errO error
			if pan, _ := guard(func() { resO, errO = q.Bindings(gctx, &types.QueryBindingsRequest{ServiceName: n, Owner: o}) }); pan != "" {
				bad("bindings-of-service-and-owner", "grpc-panic", "gRPC bindings(%s, owner) panicked: %s", n, pan)
				continue
			}
			var gotO [][]byte
			if errO == nil {
				for _, b := range resO.ServiceBindings {
					gotO = append(gotO, pbz(b))
				}
			}
			if errO != nil || !sameSet(gotO, wantO) {
				bad("bindings-of-service-and-owner", "grpc", "gRPC bindings(%s, owner %.8s) returns %d bindings, the store holds %d (err %v)", n, hexs(o), len(gotO), len(wantO), errO)
				m.fail(sc, "C15", "listing-by-service-and-owner", "", "listing the bindings of %s owned by %.8s yields %d bindings, the store holds %d", n, hexs(o), len(gotO), len(wantO))
			}
			lresO, lerrO := lq(types.QueryBindings, types.QueryBindingsParams{ServiceName: n, Owner: o})
			if el, ok := jsonElems(lresO); lerrO != nil || !ok || !sameSet(el, wantOJ) {
				if !(len(wantO) == 0 && lerrO == nil && string(compactJSON(lresO)) == "[]") {
					bad("bindings-of-service-and-owner", "legacy", "legacy bindings(%s, owner %.8s) returns %d bindings, the store holds %d (err %v)", n, hexs(o), len(el), len(wantO), lerrO)
				}
			}
		}
		for _, pk := range provKeys {
			p := provs[pk]
			b, exists := s.Bindings[bkey(n, p)]
			judge("binding", fmt.Sprintf("exists%v/plen%d", exists, minInt(len(p), 21)))
			res, err := q.Binding(gctx, &types.QueryBindingRequest{ServiceName: n, Provider: p})
			if exists {
				if err != nil || res.ServiceBinding == nil || !bytes.Equal(pbz(res.ServiceBinding), pbz(&b)) {
					bad("binding", "grpc", "gRPC binding(%s,%x) differs from the stored record (err %v)", n, []byte(p), err)
				}
			} else if err == nil && res.ServiceBinding != nil && len(res.ServiceBinding.Provider) > 0 {
				bad("binding", "grpc-phantom", "gRPC binding(%s,%x) returns a record although none is stored", n, []byte(p))
			}
			if len(p) == 20 {
				lres, lerr := lq(types.QueryBinding, types.QueryBindingParams{ServiceName: n, Provider: p})
				if exists && (lerr != nil || !bytes.Equal(compactJSON(lres), aj(b))) {
					bad("binding", "legacy", "legacy binding(%s,%x) differs from the stored record (err %v)", n, []byte(p), lerr)
				}
				if !exists && lerr == nil && !bytes.Equal(compactJSON(lres), aj(types.ServiceBinding{})) {
					bad("binding", "legacy-phantom", "legacy binding(%s,%x) returns a record although none is stored", n, []byte(p))
				}
			}
			// pending requests of the binding
			var wantR, wantRJ [][]byte
			for id, ab := range s.ActiveBind {
				if ab.Service == n && ab.ProvBech == p.String() {
					if r, ok := truthRequest(s, id); ok {
						wantR = append(wantR, pbz(&r))
						wantRJ = append(wantRJ, aj(r))
					}
				}
			}
			if exists || len(wantR) > 0 {
				judge("pending-requests-of-binding", fmt.Sprintf("n%d", minInt(len(wantR), 3)))
				rres, rerr := q.Requests(gctx, &types.QueryRequestsRequest{ServiceName: n, Provider: p})
				var gotR [][]byte
				if rerr == nil {
					for _, r := range rres.Requests {
						gotR = append(gotR, pbz(r))
					}
				}
				if rerr != nil || !sameSet(gotR, wantR) {
					bad("pending-requests-of-binding", "grpc", "gRPC requests(%s,%x) returns %d requests, %d are pending for that binding (err %v)", n, []byte(p), len(gotR), len(wantR), rerr)
				}
				if len(p) == 20 {
					lres, lerr := lq(types.QueryRequests, types.QueryRequestsParams{ServiceName: n, Provider: p})
					if el, ok := jsonElems(lres); lerr != nil || !ok || !sameSet(el, wantRJ) {
						if !(len(wantR) == 0 && lerr == nil && string(compactJSON(lres)) == "[]") {
							bad("pending-requests-of-binding", "legacy", "legacy requests(%s,%x) returns %d requests, %d are pending (err %v)", n, []byte(p), len(el), len(wantR), lerr)
						}
					}
				}
			}
		}
	}
	for _, pk := range provKeys {
		p := provs[pk]
		want := sdk.NewCoins()
		if v, ok := s.Earned[pk]; ok && v.IsPositive() {
			want = sdk.NewCoins(sdk.NewCoin(denom, v))
		}
		related := 0
		for q := range s.Earned {
			if q != pk && len(q) > len(pk) && q[:len(pk)] == pk {
				related++
			}
		}
		judge("earned-fees", fmt.Sprintf("pos%v/plen%d/longer-with-same-prefix%d", !want.IsZero(), minInt(len(p), 21), minInt(related, 2)))
		res, err := q.EarnedFees(gctx, &types.QueryEarnedFeesRequest{Provider: p})
		if err != nil {
			if !want.IsZero() {
				bad("earned-fees", "grpc-error", "gRPC fees(%x) fails (%v) although the provider has %s", []byte(p), err, want)
			}
		} else if !res.Fees.IsEqual(want) {
			bad("earned-fees", "grpc", "gRPC fees(%x, %d bytes) = %s, the provider's records hold %s", []byte(p), len(p), res.Fees, want)
		}
		if len(p) == 20 {
			lres, lerr := lq(types.QueryEarnedFees, types.QueryEarnedFeesParams{Provider: p})
			if lerr != nil {
				if !want.IsZero() {
					bad("earned-fees", "legacy-error", "legacy fees(%x) fails (%v) although the provider has %s", []byte(p), lerr, want)
				}
			} else if !bytes.Equal(compactJSON(lres), aj(want)) {
				bad("earned-fees", "legacy", "legacy fees(%x) = %s, the provider's records hold %s", []byte(p), compactJSON(lres), want)
			}
		}
	}

	// ---- withdraw address ----
	for _, o := range append(owners, act.Consumers[0]) {
		want := o
		if a, ok := s.Withdraw[hexs(o)]; ok {
			want = unhex(a)
		}
		judge("withdraw-address", fmt.Sprintf("set%v", !bytes.Equal(want, o)))
		res, err := q.WithdrawAddress(gctx, &types.QueryWithdrawAddressRequest{Owner: o})
		if err != nil || !bytes.Equal(res.WithdrawAddress, want) {
			bad("withdraw-address", "grpc", "gRPC withdraw-address(%.8s) = %x, want %x", hexs(o), []byte(res.GetWithdrawAddress()), []byte(want))
		}
		lres, lerr := lq(types.QueryWithdrawAddress, types.QueryWithdrawAddressParams{Owner: o})
		if lerr != nil || !bytes.Equal(compactJSON(lres), aj(want)) {
			bad("withdraw-address", "legacy", "legacy withdraw-address(%.8s) = %s, want %s (err %v)", hexs(o), compactJSON(lres), aj(want), lerr)
		}
	}

	// ---- contexts, batches ----
	ctxIDs := sortedKeys(s.Contexts)
	fake := make([]byte, 40)
	copy(fake, sha256Sum(fmt.Sprint("fake-ctx", sc.Idx)))
	ctxIDs = append(ctxIDs, hexs(fake))
	if len(ctxIDs) > 6 {
		ctxIDs = append(ctxIDs[:5], ctxIDs[len(ctxIDs)-1])
	}
	for _, id := range ctxIDs {
		rc, exists := s.Contexts[id]
		judge("request-context", fmt.Sprintf("exists%v/st%d", exists, rc.State))
		res, err := q.RequestContext(gctx, &types.QueryRequestContextRequest{RequestContextId: unhex(id)})
		if exists {
			if err != nil || res.RequestContext == nil || !bytes.Equal(pbz(res.RequestContext), pbz(&rc)) {
				bad("request-context", "grpc", "gRPC context(%.16s) differs from the stored record (err %v)", id, err)
			}
		} else if err == nil && res.RequestContext != nil && !res.RequestContext.Empty() {
			bad("request-context", "grpc-phantom", "gRPC context(%.16s) returns a record although none is stored", id)
		}
		lres, lerr := lq(types.QueryRequestContext, types.QueryRequestContextParams{RequestContextID: unhex(id)})
		allTwenty := true
		for _, p := range rc.Providers {
			if len(p) != 20 {
				allTwenty = false
			}
		}
		if exists && (lerr != nil || !bytes.Equal(compactJSON(lres), aj(rc))) {
			bad("request-context", "legacy", "legacy context(%.16s) differs from the stored record (err %v)", id, lerr)
		}
		if exists && lerr == nil {
			// the textual forms of the two state fields, against the harness's own table
			var generic map[string]interface{}
			if json.Unmarshal(lres, &generic) == nil {
				wantState := map[types.RequestContextState]string{types.RUNNING: "running", types.PAUSED: "paused", types.COMPLETED: "completed"}[rc.State]
				wantBatch := map[types.RequestContextBatchState]string{types.BATCHRUNNING: "running", types.BATCHCOMPLETED: "completed"}[rc.BatchState]
				gs, okS := generic["state"].(string)
				gb, okB := generic["batch_state"].(string)
				if _, present := generic["state"]; !present && !okS {
					gs = "running" // zero values are omitted
				}
				if _, present := generic["batch_state"]; !present && !okB {
					gb = "running"
				}
				judge("request-context-state-names", wantState+"/"+wantBatch)
				if gs != wantState || gb != wantBatch {
					bad("request-context", "legacy-state-name", "legacy context(%.16s) renders state %q / batch state %q, the record is %s / %s", id, gs, gb, wantState, wantBatch)
				}
			}
		}
		if !exists && lerr == nil && !bytes.Equal(compactJSON(lres), aj(types.RequestContext{})) {
			bad("request-context", "legacy-phantom", "legacy context(%.16s) returns a record although none is stored", id)
		}
		_ = allTwenty
		batches := []uint64{rc.BatchCounter, rc.BatchCounter + 1, 0}
		if rc.BatchCounter > 0 {
			batches = append(batches, rc.BatchCounter-1)
		}
		for _, bn := range batches {
			var wantR, wantRJ, wantP, wantPJ [][]byte
			for rid, cr := range s.Requests {
				if hexs(cr.RequestContextId) == id && cr.RequestContextBatchCounter == bn {
					if r, ok := truthRequest(s, rid); ok {
						wantR = append(wantR, pbz(&r))
						wantRJ = append(wantRJ, aj(r))
					}
				}
			}
			for rid, resp := range s.Responses {
				if c, n, _, _, ok := reqParts(rid); ok && c == id && n == bn {
					rr := resp
					wantP = append(wantP, pbz(&rr))
					wantPJ = append(wantPJ, aj(rr))
				}
			}
			judge("requests-of-batch", fmt.Sprintf("n%d/cur%v", minInt(len(wantR), 3), bn == rc.BatchCounter))
			rres, rerr := q.RequestsByReqCtx(gctx, &types.QueryRequestsByReqCtxRequest{RequestContextId: unhex(id), BatchCounter: bn})
			var gotR [][]byte
			if rerr == nil {
				for _, r := range rres.Requests {
					gotR = append(gotR, pbz(r))
				}
			}
			if rerr != nil || !sameSet(gotR, wantR) {
				bad("requests-of-batch", "grpc", "gRPC requests-by-context(%.16s,%d) returns %d requests, the batch has %d (err %v)", id, bn, len(gotR), len(wantR), rerr)
			}
			lres, lerr := lq(types.QueryRequestsByReqCtx, types.QueryRequestsByReqCtxParams{RequestContextID: unhex(id), BatchCounter: bn})
			if el, ok := jsonElems(lres); lerr != nil || !ok || !sameSet(el, wantRJ) {
				if !(len(wantR) == 0 && lerr == nil && string(compactJSON(lres)) == "[]") {
					bad("requests-of-batch", "legacy", "legacy requests-by-context(%.16s,%d) returns %d requests, the batch has %d (err %v)", id, bn, len(el), len(wantR), lerr)
				}
			}
			judge("responses-of-batch", fmt.Sprintf("n%d", minInt(len(wantP), 3)))
			pres, perr := q.Responses(gctx, &types.QueryResponsesRequest{RequestContextId: unhex(id), BatchCounter: bn})
			var gotP [][]byte
			if perr == nil {
				for _, r := range pres.Responses {
					gotP = append(gotP, pbz(r))
				}
			}
			if perr != nil || !sameSet(gotP, wantP) {
				bad("responses-of-batch", "grpc", "gRPC responses(%.16s,%d) returns %d responses, the batch has %d (err %v)", id, bn, len(gotP), len(wantP), perr)
			}
			lres2, lerr2 := lq(types.QueryResponses, types.QueryResponsesParams{RequestContextID: unhex(id), BatchCounter: bn})
			if el, ok := jsonElems(lres2); lerr2 != nil || !ok || !sameSet(el, wantPJ) {
				if !(len(wantP) == 0 && lerr2 == nil && string(compactJSON(lres2)) == "[]") {
					bad("responses-of-batch", "legacy", "legacy responses(%.16s,%d) returns %d responses, the batch has %d (err %v)", id, bn, len(el), len(wantP), lerr2)
				}
			}
		}
	}

	// ---- single request / response ----
	rids := sortedKeys(s.Requests)
	if len(rids) > 6 {
		rids = rids[:6]
	}
	frid := make([]byte, 58)
	copy(frid, sha256Sum(fmt.Sprint("fake-req", sc.Idx)))
	rids = append(rids, hexs(frid))
	for id, le := range m.reqs {
		if _, ok := s.Requests[id]; !ok && le.Status != "pending" {
			rids = append(rids, id) // a request that once existed
			break
		}
	}
	for _, rid := range rids {
		r, exists := truthRequest(s, rid)
		judge("request", fmt.Sprintf("exists%v", exists))
		res, err := q.Request(gctx, &types.QueryRequestRequest{RequestId: unhex(rid)})
		if exists {
			if err != nil || res.Request == nil || !bytes.Equal(pbz(res.Request), pbz(&r)) {
				bad("request", "grpc", "gRPC request(%.24s..) differs from the request reconstructed from the stored records (err %v): got %v want %v", rid, err, res.GetRequest(), r)
			}
		} else if err == nil && res.Request != nil && !res.Request.Empty() {
			bad("request", "grpc-phantom", "gRPC request(%.24s..) returns a record although none is stored", rid)
		}
		lres, lerr := lq(types.QueryRequest, types.QueryRequestParams{RequestID: unhex(rid)})
		if exists && (lerr != nil || !bytes.Equal(compactJSON(lres), aj(r))) {
			bad("request", "legacy", "legacy request(%.24s..) differs from the reconstructed request (err %v)", rid, lerr)
		}
		if !exists && lerr == nil && !bytes.Equal(compactJSON(lres), aj(types.Request{})) {
			bad("request", "legacy-phantom", "legacy request(%.24s..) returns a record although none is stored", rid)
		}
		resp, rexists := s.Responses[rid]
		judge("response", fmt.Sprintf("exists%v", rexists))
		pres, perr := q.Response(gctx, &types.QueryResponseRequest{RequestId: unhex(rid)})
		if rexists {
			if perr != nil || pres.Response == nil || !bytes.Equal(pbz(pres.Response), pbz(&resp)) {
				bad("response", "grpc", "gRPC response(%.24s..) differs from the stored record (err %v)", rid, perr)
			}
		} else if perr == nil && pres.Response != nil && !pres.Response.Empty() {
			bad("response", "grpc-phantom", "gRPC response(%.24s..) returns a record although none is stored", rid)
		}
		lres2, lerr2 := lq(types.QueryResponse, types.QueryResponseParams{RequestID: unhex(rid)})
		if rexists && (lerr2 != nil || !bytes.Equal(compactJSON(lres2), aj(resp))) {
			bad("response", "legacy", "legacy response(%.24s..) differs from the stored record (err %v)", rid, lerr2)
		}
		if !rexists && lerr2 == nil && !bytes.Equal(compactJSON(lres2), aj(types.Response{})) {
			bad("response", "legacy-phantom", "legacy response(%.24s..) returns a record although none is stored", rid)
		}
	}

	// ---- params, schema ----
	judge("params", "")
	pr, perr := q.Params(gctx, &types.QueryParamsRequest{})
	if perr != nil || !bytes.Equal(pbz(&pr.Params), pbz(&s.Params)) {
		bad("params", "grpc", "gRPC params differ from the parameters in force")
	}
	lp, lperr := lq(types.QueryParameters, nil)
	if lperr != nil || !bytes.Equal(compactJSON(lp), aj(s.Params)) {
		bad("params", "legacy", "legacy params differ from the parameters in force (err %v)", lperr)
	}
	for _, sn := range []string{"pricing", "result", "Pricing", "nosuch"} {
		judge("schema", sn)
		want := ""
		switch sn {
		case "pricing", "Pricing":
			want = types.PricingSchema
		case "result":
			want = types.ResultSchema
		}
		sr, serr := q.Schema(gctx, &types.QuerySchemaRequest{SchemaName: sn})
		ls, lserr := lq(types.QuerySchema, types.QuerySchemaParams{SchemaName: sn})
		if want == "" {
			if serr == nil || lserr == nil {
				bad("schema", "unknown-accepted", "schema(%s) answered although no such schema exists", sn)
			}
			continue
		}
		if serr != nil || sr.Schema != want {
			bad("schema", "grpc", "gRPC schema(%s) differs from the schema the module validates with", sn)
		}
		if lserr != nil || !bytes.Equal(compactJSON(ls), aj(want)) {
			bad("schema", "legacy", "legacy schema(%s) differs", sn)
		}
	}
	_ = codec.MarshalJSONIndent
}

// everyFor: the fixed scripts are short and are sampled densely.
func everyFor(sc *StepCtx, every, dense int) int {
	if sc.run != nil && strings.HasPrefix(sc.run.hist.Name, "script-") {
		return dense
	}
	return every
}

// clientAsServer lets the differential ask a gRPC query client (whose calls travel through the
// application's ABCI Query endpoint) with the same code that asks the keeper directly.
type clientAsServer struct{ c types.QueryClient }

func (a clientAsServer) Definition(_ context.Context, r *types.QueryDefinitionRequest) (*types.QueryDefinitionResponse, error) {
	return a.c.Definition(context.Background(), r)
}
func (a clientAsServer) Binding(_ context.Context, r *types.QueryBindingRequest) (*types.QueryBindingResponse, error) {
	return a.c.Binding(context.Background(), r)
}
func (a clientAsServer) Bindings(_ context.Context, r *types.QueryBindingsRequest) (*types.QueryBindingsResponse, error) {
	return a.c.Bindings(context.Background(), r)
}
func (a clientAsServer) WithdrawAddress(_ context.Context, r *types.QueryWithdrawAddressRequest) (*types.QueryWithdrawAddressResponse, error) {
	return a.c.WithdrawAddress(context.Background(), r)
}
func (a clientAsServer) RequestContext(_ context.Context, r *types.QueryRequestContextRequest) (*types.QueryRequestContextResponse, error) {
	return a.c.RequestContext(context.Background(), r)
}
func (a clientAsServer) Request(_ context.Context, r *types.QueryRequestRequest) (*types.QueryRequestResponse, error) {
	return a.c.Request(context.Background(), r)
}
func (a clientAsServer) Requests(_ context.Context, r *types.QueryRequestsRequest) (*types.QueryRequestsResponse, error) {
	return a.c.Requests(context.Background(), r)
}
func (a clientAsServer) RequestsByReqCtx(_ context.Context, r *types.QueryRequestsByReqCtxRequest) (*types.QueryRequestsByReqCtxResponse, error) {
	return a.c.RequestsByReqCtx(context.Background(), r)
}
func (a clientAsServer) Response(_ context.Context, r *types.QueryResponseRequest) (*types.QueryResponseResponse, error) {
	return a.c.Response(context.Background(), r)
}
func (a clientAsServer) Responses(_ context.Context, r *types.QueryResponsesRequest) (*types.QueryResponsesResponse, error) {
	return a.c.Responses(context.Background(), r)
}
func (a clientAsServer) EarnedFees(_ context.Context, r *types.QueryEarnedFeesRequest) (*types.QueryEarnedFeesResponse, error) {
	return a.c.EarnedFees(context.Background(), r)
}
func (a clientAsServer) Schema(_ context.Context, r *types.QuerySchemaRequest) (*types.QuerySchemaResponse, error) {
	return a.c.Schema(context.Background(), r)
}
func (a clientAsServer) Params(_ context.Context, r *types.QueryParamsRequest) (*types.QueryParamsResponse, error) {
	return a.c.Params(context.Background(), r)
}
