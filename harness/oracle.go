package main

// Reference oracles derived from the property statements (not from the code):
// price from the published pricing text (own JSON/decimal parser, exact rationals),
// minimum deposit, tax, slash.

import (
	"encoding/json"
	"fmt"
	"math/big"
	"regexp"
	"strings"
	"time"

	sdk "github.com/cosmos/cosmos-sdk/types"

	"github.com/irismod/service/types"
)

type oTimePromo struct {
	Start, End time.Time
	Discount   *big.Rat
}

type oVolPromo struct {
	Volume   uint64
	Discount *big.Rat
}

type OPricing struct {
	Base    *big.Int // base price truncated to base units
	BaseRat *big.Rat
	Denom   string
	ByTime  []oTimePromo
	ByVol   []oVolPromo
}

var rePrice = regexp.MustCompile(`^(\d+)(?:\.(\d+))?([a-z][a-z0-9]{2,15})$`)

func parseDecimal(s string) (*big.Rat, error) {
	r, ok := new(big.Rat).SetString(s)
	if !ok {
		return nil, fmt.Errorf("bad decimal %q", s)
	}
	return r, nil
}

// ParsePricingText parses the binding's published pricing text independently of the module.
func ParsePricingText(text string) (*OPricing, error) {
	var raw struct {
		Price  string `json:"price"`
		ByTime []struct {
			Start    string `json:"start_time"`
			End      string `json:"end_time"`
			Discount string `json:"discount"`
		} `json:"promotions_by_time"`
		ByVol []struct {
			Volume   json.Number `json:"volume"`
			Discount string      `json:"discount"`
		} `json:"promotions_by_volume"`
	}
	dec := json.NewDecoder(strings.NewReader(text))
	dec.UseNumber()
	if err := dec.Decode(&raw); err != nil {
		return nil, err
	}
	m := rePrice.FindStringSubmatch(strings.TrimSpace(raw.Price))
	if m == nil {
		return nil, fmt.Errorf("bad price %q", raw.Price)
	}
	num := m[1]
	if m[2] != "" {
		num += "." + m[2]
	}
	r, err := parseDecimal(num)
	if err != nil {
		return nil, err
	}
	p := &OPricing{BaseRat: r, Denom: m[3]}
	p.Base = new(big.Int).Quo(r.Num(), r.Denom())
	for _, t := range raw.ByTime {
		st, err := time.Parse(time.RFC3339Nano, t.Start)
		if err != nil {
			return nil, err
		}
		en, err := time.Parse(time.RFC3339Nano, t.End)
		if err != nil {
			return nil, err
		}
		d, err := parseDecimal(t.Discount)
		if err != nil {
			return nil, err
		}
		p.ByTime = append(p.ByTime, oTimePromo{st, en, d})
	}
	for _, v := range raw.ByVol {
		n, ok := new(big.Int).SetString(v.Volume.String(), 10)
		if !ok || !n.IsUint64() {
			return nil, fmt.Errorf("bad volume %q", v.Volume)
		}
		d, err := parseDecimal(v.Discount)
		if err != nil {
			return nil, err
		}
		p.ByVol = append(p.ByVol, oVolPromo{n.Uint64(), d})
	}
	return p, nil
}

func (p *OPricing) timeDiscount(t time.Time) (*big.Rat, string) {
	for i, pr := range p.ByTime {
		if !t.Before(pr.Start) && t.Before(pr.End) {
			cls := "inside"
			if t.Equal(pr.Start) {
				cls = "at-start"
			} else if t.Add(time.Nanosecond).Equal(pr.End) {
				cls = "last-instant"
			}
			return pr.Discount, fmt.Sprintf("win%d-%s", i, cls)
		}
	}
	cls := "none"
	for i, pr := range p.ByTime {
		if t.Equal(pr.End) {
			cls = fmt.Sprintf("win%d-at-end", i)
		} else if t.Add(time.Nanosecond).Equal(pr.Start) {
			cls = fmt.Sprintf("win%d-just-before", i)
		}
	}
	return big.NewRat(1, 1), cls
}

func (p *OPricing) volDiscount(vol uint64) (*big.Rat, string) {
	d := big.NewRat(1, 1)
	cls := "none"
	for i, pr := range p.ByVol {
		if pr.Volume <= vol {
			d = pr.Discount
			cls = fmt.Sprintf("tier%d", i)
			if pr.Volume == vol {
				cls += "-at"
			}
		} else if pr.Volume == vol+1 {
			if cls == "none" {
				cls = fmt.Sprintf("below-tier%d", i)
			}
		}
	}
	return d, cls
}

// PriceRange returns the acceptable fees (lo..hi, usually equal) for one request and a
// label describing the situation (for coverage accounting).
func (p *OPricing) PriceRange(t time.Time, vol uint64) (lo, hi *big.Int, label string) {
	dt, tc := p.timeDiscount(t)
	dv, vc := p.volDiscount(vol)
	exact := new(big.Rat).SetInt(p.Base)
	exact.Mul(exact, dt).Mul(exact, dv)
	eps := new(big.Rat).SetFrac(big.NewInt(2), new(big.Int).Exp(big.NewInt(10), big.NewInt(18), nil))
	floor := func(r *big.Rat) *big.Int {
		q := new(big.Int).Quo(r.Num(), r.Denom())
		if r.Sign() < 0 && new(big.Int).Mul(q, r.Denom()).Cmp(r.Num()) != 0 {
			q.Sub(q, big.NewInt(1))
		}
		return q
	}
	lo = floor(new(big.Rat).Sub(exact, eps))
	hi = floor(new(big.Rat).Add(exact, eps))
	one := big.NewInt(1)
	cls := "ge1"
	if exact.Cmp(big.NewRat(1, 1)) < 0 {
		cls = "sub-unit"
		if exact.Sign() == 0 {
			cls = "zero"
		}
	}
	if lo.Cmp(one) < 0 {
		lo = one
	}
	if hi.Cmp(one) < 0 {
		hi = one
	}
	return lo, hi, tc + "/" + vc + "/" + cls
}

// MinDeposit = max(global minimum, base price x multiple).
func MinDeposit(params types.Params, p *OPricing) *big.Int {
	m := new(big.Int).Mul(p.Base, big.NewInt(params.MinDepositMultiple))
	g := amountOfLinear(params.MinDeposit, denom).BigInt()
	if g.Cmp(m) > 0 {
		return g
	}
	return m
}

func decRat(d sdk.Dec) *big.Rat {
	r, _ := new(big.Rat).SetString(d.String())
	return r
}

func floorMul(x *big.Int, f *big.Rat) *big.Int {
	r := new(big.Rat).SetInt(x)
	r.Mul(r, f)
	return new(big.Int).Quo(r.Num(), r.Denom())
}

// SlashN applies n slashes d <- d - floor(d*f) and returns the final deposit and total burned.
func SlashN(d *big.Int, f *big.Rat, n int) (*big.Int, *big.Int) {
	cur := new(big.Int).Set(d)
	burned := new(big.Int)
	for i := 0; i < n; i++ {
		s := floorMul(cur, f)
		cur.Sub(cur, s)
		burned.Add(burned, s)
	}
	return cur, burned
}

// outputWellFormed is the harness's own reading of the output schema: a JSON object
// with a required object "header" and, if present, an object "body".
func outputWellFormed(out string) bool {
	var v interface{}
	dec := json.NewDecoder(strings.NewReader(out))
	dec.UseNumber() // number literals of any magnitude are numbers
	if err := dec.Decode(&v); err != nil {
		return false
	}
	if dec.More() {
		return false
	}
	obj, ok := v.(map[string]interface{})
	if !ok {
		return false
	}
	h, ok := obj["header"]
	if !ok {
		return false
	}
	if _, ok := h.(map[string]interface{}); !ok {
		return false
	}
	if b, ok := obj["body"]; ok {
		if _, ok := b.(map[string]interface{}); !ok {
			return false
		}
	}
	return true
}

func bi(x sdk.Int) *big.Int { return x.BigInt() }

// timesStorable: every promotion instant lies in 0001-01-01T00:00:00Z .. 9999-12-31T23:59:59.999999999Z.
func (p *OPricing) timesStorable() bool {
	lo := time.Date(1, 1, 1, 0, 0, 0, 0, time.UTC)
	hi := time.Date(10000, 1, 1, 0, 0, 0, 0, time.UTC)
	for _, t := range p.ByTime {
		for _, x := range []time.Time{t.Start, t.End} {
			if x.Before(lo) || !x.Before(hi) {
				return false
			}
		}
	}
	return true
}

// amountOfLinear reads the amount of a denomination from a coin list without assuming that the
// list is sorted (sdk.Coins.AmountOf is a binary search: on a list that is not in canonical
// order it may answer zero for a denomination that is there).
func amountOfLinear(cs sdk.Coins, d string) sdk.Int {
	total := sdk.ZeroInt()
	for _, c := range cs {
		if c.Denom == d && !c.Amount.IsNil() {
			total = total.Add(c.Amount)
		}
	}
	return total
}
