package main

// Directed families: short scripts with enumerated parameters (see DESIGN 2.4).

func directedJobs(prop, tier string, seed int64) []job {
	return nil
}

func extraChecks(prop, tier string, seed int64, stats *Stats) {
	want := func(p string) bool { return prop == "all" || prop == p }
	if want("C18") {
		st := NewStats()
		staticC18(NewApp(), NewMon(st), seed, 300)
		stats.Merge(st)
	}
}

func cmdDigest(args []string) {}
