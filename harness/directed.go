package main

// Directed families: short scripts over the schedules the properties single out, with
// their parameters enumerated (thorough) or sampled by the seed (quick). All monitors
// judge every step of them exactly as they judge random histories.

import (
	"fmt"
	"math"
	"math/big"
	"math/rand"
	"time"

	sdk "github.com/cosmos/cosmos-sdk/types"

	"github.com/irismod/service/types"
)

const blockDt = 5 * time.Second

// Sc is a small scenario DSL over a Run.
type Sc struct {
	r *Run
	A *Actors
	p types.Params
}

func baseParams() types.Params {
	p := types.DefaultParams()
	p.MaxRequestTimeout = 5
	p.MinDepositMultiple = 10
	p.MinDeposit = sdk.NewCoins(sdk.NewCoin(denom, sdk.NewInt(50)))
	p.ServiceFeeTax = sdk.NewDecWithPrec(1, 1)
	p.SlashFraction = sdk.NewDecWithPrec(1, 1)
	p.ComplaintRetrospect = 10 * time.Second
	p.ArbitrationTimeLimit = 5 * time.Second
	return p
}

func newSc(a *App, mon *Mon, name string, seed int64, p types.Params, mid, poor int64, modsvc string) *Sc {
	r := NewRun(a, name, seed, p, mon)
	act := MakeActors()
	act.FundAll(r, 1_000_000_000, mid, poor)
	if modsvc != "" {
		r.InstallModuleService(modsvc)
	}
	r.SetViaApp(seed%2 == 0 || len(name)%2 == 0)
	r.Begin()
	return &Sc{r: r, A: act, p: p}
}

func (s *Sc) define(name string) {
	sch := goodSchemas
	if s.r.rng.Intn(3) == 0 {
		sch = strictSchemas
	}
	s.r.Msg(types.NewMsgDefineService(name, "d", nil, s.A.Owners[0], "a", sch), "")
}

func (s *Sc) bind(svc string, prov, owner sdk.AccAddress, dep int64, pricing string, qos uint64) StepResult {
	return s.r.Msg(types.NewMsgBindService(svc, prov, coins(dep), pricing, qos, "{}", owner), "")
}

func price(base string) string { return fmt.Sprintf(`{"price":"%s%s"}`, base, denom) }

func (s *Sc) call(svc string, provs []sdk.AccAddress, cons sdk.AccAddress, cap, timeout int64, super, rep bool, freq uint64, total int64) string {
	res := s.r.Msg(types.NewMsgCallService(svc, provs, cons, goodInput, coins(cap), timeout, super, rep, freq, total), "")
	return res.NewCtxID
}

func (s *Sc) modCreate(svc string, provs []sdk.AccAddress, cons sdk.AccAddress, cap, timeout int64, rep bool, freq uint64, total int64, thr uint32) string {
	var ph []string
	for _, p := range provs {
		ph = append(ph, hexs(p))
	}
	res := s.r.Mod(ModOp{Op: "create", Service: svc, Providers: ph, Consumer: hexs(cons), Input: goodInput, FeeCap: cap, Timeout: timeout,
		Repeated: rep, Freq: freq, Total: total, Threshold: thr, Module: verifModule}, "")
	return res.NewCtxID
}

func (s *Sc) block() { s.r.Block(blockDt) }

// pendingOf lists the pending request IDs of a context addressed to prov (any if nil).
func (s *Sc) pendingOf(ctxID string, prov sdk.AccAddress) []string {
	var out []string
	for _, id := range s.r.pre.PendingIDs() {
		r := s.r.pre.Requests[id]
		if (ctxID == "" || hexs(r.RequestContextId) == ctxID) && (prov == nil || prov.Equals(r.Provider)) {
			out = append(out, id)
		}
	}
	return out
}

func (s *Sc) respond(rid string, prov sdk.AccAddress, kind int) StepResult {
	result, output := goodResult, goodOutput
	switch kind {
	case 0:
		output = goodOutputs[s.r.rng.Intn(len(goodOutputs))]
	case 1:
		output = malformedOutputs[s.r.rng.Intn(len(malformedOutputs))]
	case 2:
		result, output = `{"code":500,"message":"e"}`, ""
	}
	return s.r.Msg(types.NewMsgRespondService(unhex(rid), prov, result, output), "")
}

func (s *Sc) ctl(op string, ctxID string, signer sdk.AccAddress) StepResult {
	switch op {
	case "pause":
		return s.r.Msg(types.NewMsgPauseRequestContext(unhex(ctxID), signer), "")
	case "start":
		return s.r.Msg(types.NewMsgStartRequestContext(unhex(ctxID), signer), "")
	case "kill":
		return s.r.Msg(types.NewMsgKillRequestContext(unhex(ctxID), signer), "")
	}
	panic(op)
}

func (s *Sc) modCtl(op string, ctxID string, cons sdk.AccAddress) StepResult {
	return s.r.Mod(ModOp{Op: op, CtxID: ctxID, Consumer: hexs(cons)}, "")
}

func (s *Sc) done() { s.r.Finish() }

// ---------------------------------------------------------------------------
// F1: cadence x control-operation placement

type cadenceCase struct {
	StartH int64 // 0 = default
	T      int64
	F      uint64
	Total  int64
	Op     string // none|pause|kill|update-total|update-time|pause-start-same
	OpAt   int    // block offset (0 = block of the call) at which the op is sent
	Start  int    // blocks after the pause at which start is sent (0 = never)
	Module bool
	Answer int // 0 nobody answers, 1 everybody answers next block, 2 first provider only
}

func runCadence(a *App, mon *Mon, seed int64, c cadenceCase) {
	p := baseParams()
	var s *Sc
	if c.StartH > 0 {
		r := NewRunAt(a, fmt.Sprintf("cadence-%+v", c), seed, p, mon, c.StartH)
		act := MakeActors()
		act.FundAll(r, 1_000_000_000, 1_000_000, 3)
		r.Begin()
		s = &Sc{r: r, A: act, p: p}
	} else {
		s = newSc(a, mon, fmt.Sprintf("cadence-%+v", c), seed, p, 1_000_000, 3, "")
	}
	p1, p2 := s.A.SignProv[0], s.A.SignProv[1]
	s.define("svc")
	s.bind("svc", p1, s.A.Owners[0], 1000, price("2"), 1)
	s.bind("svc", p2, s.A.Owners[1], 1000, price("3"), 1)
	cons := s.A.Consumers[0]
	var id string
	if c.Module {
		cons = s.A.ModCons
		id = s.modCreate("svc", []sdk.AccAddress{p1, p2}, cons, 10, c.T, true, c.F, c.Total, 2)
	} else {
		id = s.call("svc", []sdk.AccAddress{p1, p2}, cons, 10, c.T, false, true, c.F, c.Total)
	}
	if id == "" {
		s.done()
		return
	}
	n := int(c.T) + 2
	if c.Total > 0 {
		n += int(c.Total) * int(c.F)
	} else {
		n += 4 * int(c.F)
	}
	n += c.OpAt + c.Start
	if n > 40 {
		n = 40
	}
	op := func(o string) {
		if c.Module {
			s.modCtl(o, id, cons)
		} else {
			s.ctl(o, id, cons)
		}
	}
	for b := 0; b < n; b++ {
		// messages of this block
		if c.Answer > 0 {
			for _, rid := range s.pendingOf(id, p1) {
				s.respond(rid, p1, 0)
			}
			if c.Answer == 1 {
				for _, rid := range s.pendingOf(id, p2) {
					s.respond(rid, p2, 0)
				}
			}
		}
		if b == c.OpAt {
			switch c.Op {
			case "pause":
				op("pause")
			case "kill":
				op("kill")
			case "pause-start-same":
				op("pause")
				op("start")
			case "restart":
				s.r.Restart()
			case "pause-kill":
				op("pause")
			case "update-total":
				if c.Module {
					s.r.Mod(ModOp{Op: "update", CtxID: id, Consumer: hexs(cons), Total: c.Total + 1}, "")
				} else {
					s.r.Msg(types.NewMsgUpdateRequestContext(unhex(id), nil, nil, 0, 0, c.Total+1, cons), "")
				}
			case "update-time":
				nt := c.T%3 + 1
				nf := uint64(nt) + 1
				if c.Module {
					s.r.Mod(ModOp{Op: "update", CtxID: id, Consumer: hexs(cons), Timeout: nt, Freq: nf}, "")
				} else {
					s.r.Msg(types.NewMsgUpdateRequestContext(unhex(id), nil, nil, nt, nf, 0, cons), "")
				}
			}
		}
		if c.Op == "pause" && c.Start > 0 && b == c.OpAt+c.Start {
			op("start")
		}
		if c.Op == "restart" && c.Start > 0 && b == c.OpAt+c.Start {
			op("start")
		}
		if c.Op == "pause-kill" && b == c.OpAt+c.Start {
			op("kill")
		}
		if c.Op == "kill" && c.Start > 0 && b == c.OpAt+c.Start {
			op("start") // must be refused: completed is final
		}
		s.block()
	}
	s.done()
}

// low start heights with frequencies around the byte boundaries of the height keys
func lowStartCases() []cadenceCase {
	var out []cadenceCase
	for _, sh := range []int64{1, 2, 3} {
		for _, F := range []uint64{255, 256, 511, 767, 65535} {
			out = append(out, cadenceCase{StartH: sh, T: 1, F: F, Total: 3, Op: "none", Answer: int(sh) % 3})
			out = append(out, cadenceCase{StartH: sh, T: 2, F: F, Total: -1, Op: "pause", OpAt: 1, Start: 2, Answer: 1})
		}
	}
	return out
}

func cadenceCases() []cadenceCase {
	var out []cadenceCase
	for _, T := range []int64{1, 2, 3} {
		for _, df := range []uint64{0, 1, 2, 4} {
			F := uint64(T) + df
			for _, total := range []int64{1, 2, 3, -1} {
				for _, ans := range []int{0, 1, 2} {
					out = append(out, cadenceCase{T: T, F: F, Total: total, Op: "none", Answer: ans})
				}
				span := int(F)*2 + int(T) + 1
				for _, op := range []string{"pause", "kill", "update-total", "update-time", "pause-start-same", "restart", "pause-kill"} {
					for at := 0; at <= span; at++ {
						starts := []int{0}
						if op == "pause" || op == "kill" {
							starts = []int{0, 1, 2, int(T), int(T) + 1, int(F), int(F) + 1, int(F) + int(T) + 1}
						}
						if op == "restart" {
							starts = []int{0, 1, int(T) + 1}
						}
						if op == "pause-kill" {
							starts = []int{0, 1, int(T)}
						}
						for _, st := range starts {
							out = append(out, cadenceCase{T: T, F: F, Total: total, Op: op, OpAt: at, Start: st, Answer: (at + st) % 3})
						}
					}
				}
			}
		}
	}
	out = append(out, lowStartCases()...)
	// module-owned variants of a subset
	n := len(out)
	for i := 0; i < n; i += 7 {
		c := out[i]
		c.Module = true
		out = append(out, c)
	}
	return out
}

// ---------------------------------------------------------------------------
// F2: response placement

type respCase struct {
	T        int64
	NProv    int
	Offsets  []int // per provider: 0 = never, k = k blocks after issue (1..T+1)
	Kinds    []int // per provider: 0 good, 1 malformed, 2 no output
	Twice    bool
	Stranger bool
	Mid      string // none|pause|kill|update : context operation one block after issue
	Module   bool
	Thr      uint32
	Super    bool
}

func runResp(a *App, mon *Mon, seed int64, c respCase) {
	p := baseParams()
	p.SlashFraction = []sdk.Dec{sdk.NewDecWithPrec(1, 1), sdk.ZeroDec(), sdk.OneDec(), sdk.NewDecWithPrec(5, 1)}[seed%4]
	p.ServiceFeeTax = []sdk.Dec{sdk.NewDecWithPrec(1, 1), sdk.ZeroDec(), sdk.NewDecWithPrec(5, 1)}[seed%3]
	s := newSc(a, mon, fmt.Sprintf("resp-%+v", c), seed, p, 1_000_000, 3, "")
	provs := s.A.SignProv[:c.NProv]
	s.define("svc")
	prices := []string{"1", "2", "7"}
	for i, pr := range provs {
		s.bind("svc", pr, s.A.Owners[i%2], 600, price(prices[i]), 1)
	}
	cons := s.A.Consumers[0]
	var id string
	rep := c.Mid != "none"
	if c.Module {
		cons = s.A.ModCons
		id = s.modCreate("svc", provs, cons, 10, c.T, rep, uint64(c.T)+1, 2, c.Thr)
	} else {
		id = s.call("svc", provs, cons, 10, c.T, c.Super, rep, uint64(c.T)+1, 2)
	}
	if id == "" {
		s.done()
		return
	}
	s.block() // batch 1 issued here
	reqOf := map[int]string{}
	for i, pr := range provs {
		if ids := s.pendingOf(id, pr); len(ids) > 0 {
			reqOf[i] = ids[0]
		}
	}
	for b := 1; b <= int(c.T)+2; b++ {
		if b == 1 {
			switch c.Mid {
			case "pause", "kill":
				if c.Module {
					s.modCtl(c.Mid, id, cons)
				} else {
					s.ctl(c.Mid, id, cons)
				}
			case "update":
				if c.Module {
					s.r.Mod(ModOp{Op: "update", CtxID: id, Consumer: hexs(cons), Timeout: c.T%3 + 1, Freq: uint64(c.T%3+1) + 2}, "")
				} else {
					s.r.Msg(types.NewMsgUpdateRequestContext(unhex(id), nil, nil, c.T%3+1, uint64(c.T%3+1)+2, 0, cons), "")
				}
			}
		}
		for i, pr := range provs {
			if c.Offsets[i] == b && reqOf[i] != "" {
				if c.Stranger {
					s.respond(reqOf[i], s.A.Stranger, c.Kinds[i])
					s.respond(reqOf[i], provs[(i+1)%len(provs)], c.Kinds[i])
				}
				s.respond(reqOf[i], pr, c.Kinds[i])
				if c.Twice {
					s.respond(reqOf[i], pr, 0)
				}
			}
		}
		s.block()
	}
	// after everything expired: late responses and an unknown id
	for i, pr := range provs {
		if reqOf[i] != "" {
			s.respond(reqOf[i], pr, 0)
		}
	}
	unknown := make([]byte, 58)
	copy(unknown, sha256Sum("unknown"))
	s.respond(hexs(unknown), provs[0], 0)
	s.block()
	s.done()
}

func respCases(rng *rand.Rand, n int) []respCase {
	var out []respCase
	for i := 0; i < n; i++ {
		c := respCase{T: int64(1 + rng.Intn(4)), NProv: 1 + rng.Intn(3), Twice: rng.Intn(4) == 0, Stranger: rng.Intn(4) == 0,
			Mid: []string{"none", "none", "pause", "kill", "update"}[rng.Intn(5)], Module: rng.Intn(3) == 0, Super: rng.Intn(8) == 0}
		for j := 0; j < c.NProv; j++ {
			c.Offsets = append(c.Offsets, rng.Intn(int(c.T)+3)) // 0..T+2
			c.Kinds = append(c.Kinds, []int{0, 0, 1, 2}[rng.Intn(4)])
		}
		c.Thr = uint32(1 + rng.Intn(c.NProv))
		if c.Module {
			c.Super = false
		}
		out = append(out, c)
	}
	return out
}

// ---------------------------------------------------------------------------
// F3: consumer funds around the batch cost, one or several due contexts

type fundsCase struct {
	Margin int64 // consumer balance = cost*NCtxPaid + Margin
	NCtx   int   // contexts of the same consumer due in the same block
	Paid   int   // how many of them the balance covers
	Super  bool
	Module bool
	Base   string
}

func runFunds(a *App, mon *Mon, seed int64, c fundsCase) {
	p := baseParams()
	base := c.Base
	op, _ := ParsePricingText(price(base))
	unit := op.Base.Int64()
	if unit < 1 {
		unit = 1
	}
	cost := unit * 2 // two providers
	bal := cost*int64(c.Paid) + c.Margin
	if bal < 0 {
		bal = 0
	}
	s := newSc(a, mon, fmt.Sprintf("funds-%+v", c), seed, p, bal, 0, "")
	p1, p2 := s.A.SignProv[0], s.A.SignProv[1]
	s.define("svc")
	s.bind("svc", p1, s.A.Owners[0], 100000, price(base), 1)
	s.bind("svc", p2, s.A.Owners[1], 100000, price(base), 1)
	cons := s.A.Consumers[1] // the "mid" consumer holds exactly bal
	var ids []string
	if c.Module {
		s.r.SetStateCbKill(c.Paid == 0)
		// a module with a response callback only must not get a context
		var ph []string
		for _, p := range []sdk.AccAddress{p1, p2} {
			ph = append(ph, hexs(p))
		}
		s.r.Mod(ModOp{Op: "create", Service: "svc", Providers: ph, Consumer: hexs(cons), Input: goodInput, FeeCap: unit, Timeout: 2,
			Repeated: true, Freq: 3, Total: 3, Threshold: 1, Module: halfModule}, "module without state callback")
	}
	for i := 0; i < c.NCtx; i++ {
		if c.Module {
			s.r.w.Fund("modconsumer-extra", s.A.ModCons, sdk.ZeroInt())
			ids = append(ids, s.modCreate("svc", []sdk.AccAddress{p1, p2}, cons, unit, 2, true, 3, 3, 1))
		} else {
			ids = append(ids, s.call("svc", []sdk.AccAddress{p1, p2}, cons, unit, 2, c.Super, true, 3, 3))
		}
	}
	s.block()
	for _, id := range ids {
		for _, rid := range s.pendingOf(id, p1) {
			s.respond(rid, p1, 0)
		}
	}
	s.block()
	// paused contexts are started again: with and without fresh money
	for i, id := range ids {
		if rc, ok := s.r.pre.Contexts[id]; ok && rc.State == types.PAUSED {
			if i%2 == 0 {
				s.r.Msg(types.NewMsgSetWithdrawAddress(s.A.Owners[0], cons), "route owner earnings to the consumer")
				s.r.Msg(types.NewMsgWithdrawEarnedFees(s.A.Owners[0], nil), "")
			}
			if c.Module {
				s.modCtl("start", id, cons)
			} else {
				s.ctl("start", id, cons)
			}
		}
	}
	for b := 0; b < 8; b++ {
		s.block()
	}
	s.done()
}

func fundsCases() []fundsCase {
	var out []fundsCase
	for _, base := range []string{"1", "3", "0", "0.5"} {
		for _, n := range []int{1, 2, 3, 5} {
			for paid := 0; paid <= n; paid++ {
				for _, m := range []int64{-1, 0, 1} {
					out = append(out, fundsCase{Margin: m, NCtx: n, Paid: paid, Base: base})
				}
			}
		}
		out = append(out, fundsCase{Margin: 0, NCtx: 2, Paid: 0, Super: true, Base: base})
		out = append(out, fundsCase{Margin: -1, NCtx: 1, Paid: 1, Module: true, Base: base})
		out = append(out, fundsCase{Margin: 0, NCtx: 2, Paid: 1, Module: true, Base: base})
		out = append(out, fundsCase{Margin: -1, NCtx: 2, Paid: 0, Module: true, Base: base})
	}
	return out
}

// ---------------------------------------------------------------------------
// F4: prices around one unit, time windows and volume thresholds

type priceCase struct {
	Base     string
	TimeDisc string
	VolDisc  string
	VolAt    uint64
	CapDelta int64 // cap = base + CapDelta
}

func runPrice(a *App, mon *Mon, seed int64, c priceCase) {
	p := baseParams()
	p.MinDepositMultiple = 1
	s := newSc(a, mon, fmt.Sprintf("price-%+v", c), seed, p, 1_000_000, 3, "")
	// window [genesis+10s, genesis+20s): blocks are 5 s apart, so block times hit
	// before / at start / inside / at end / after; a second window follows back to back
	pricing := fmt.Sprintf(`{"price":"%s%s"`, c.Base, denom)
	if c.TimeDisc != "" {
		pricing += fmt.Sprintf(`,"promotions_by_time":[{"start_time":"%s","end_time":"%s","discount":"%s"},{"start_time":"%s","end_time":"%s","discount":"0.9"}]`,
			genesisTime.Add(10*time.Second).Format(time.RFC3339), genesisTime.Add(20*time.Second).Format(time.RFC3339), c.TimeDisc,
			genesisTime.Add(20*time.Second).Format(time.RFC3339), genesisTime.Add(25*time.Second).Format(time.RFC3339))
	}
	if c.VolDisc != "" {
		// the later tier is sometimes the cheaper, sometimes the dearer one (tiers need not be monotone)
		second := "0.1"
		if c.VolAt%2 == 0 {
			second = "0.9"
		}
		third := []string{"0.6", "0.2", "0.95"}[int(c.VolAt)%3]
		pricing += fmt.Sprintf(`,"promotions_by_volume":[{"volume":%d,"discount":"%s"},{"volume":%d,"discount":"%s"},{"volume":%d,"discount":"%s"}]`, c.VolAt, c.VolDisc, c.VolAt+2, second, c.VolAt+4, third)
	}
	pricing += "}"
	p1 := s.A.SignProv[0]
	s.define("svc")
	s.bind("svc", p1, s.A.Owners[0], 100000, pricing, 1)
	// pricing texts the schema must refuse: a "discount" that is not below one
	pbad := s.A.SignProv[1]
	s.bind("svc", pbad, s.A.Owners[1], 100000, fmt.Sprintf(`{"price":"%s%s","promotions_by_volume":[{"volume":1,"discount":"%s"}]}`, c.Base, denom, []string{"10.5", "20.25", "1.0", "100.000001"}[int(c.VolAt)%4]), 1)
	// ... and the same texts as a re-pricing of a valid binding, with no deposit riding along
	pupd := s.A.SignProv[2]
	s.bind("svc", pupd, s.A.Owners[1], 100000, fmt.Sprintf(`{"price":"%s%s"}`, c.Base, denom), 1)
	s.r.Msg(types.NewMsgUpdateServiceBinding("svc", pupd, nil, fmt.Sprintf(`{"price":"%s%s","promotions_by_volume":[{"volume":1,"discount":"%s"}]}`, c.Base, denom, []string{"1.5", "20.25", "1.0", "100.000001"}[int(c.VolAt)%4]), 0, "{}", s.A.Owners[1]), "re-pricing with a discount that is not below one")
	op, err := ParsePricingText(pricing)
	if err != nil {
		s.done()
		return
	}
	cap := op.Base.Int64() + c.CapDelta
	if c.CapDelta <= -2 {
		// a cap that separates two tier prices: floor(base x one of the published discounts)
		var ds []*big.Rat
		for _, t := range op.ByTime {
			ds = append(ds, t.Discount)
		}
		for _, v := range op.ByVol {
			ds = append(ds, v.Discount)
		}
		if len(ds) > 0 {
			cap = floorMul(op.Base, ds[int(-c.CapDelta)%len(ds)]).Int64()
		}
	}
	if cap < 1 {
		cap = 1
	}
	cons := s.A.Consumers[0]
	// one request per block (timeout 1, frequency 1), answered in the next block: volume
	// grows by one per block while the block time walks through the windows
	id := s.call("svc", []sdk.AccAddress{p1}, cons, cap, 1, false, true, 1, 9)
	// another consumer asks only the provider whose binding must not exist: every batch is skipped
	s.call("svc", []sdk.AccAddress{pbad}, s.A.Consumers[1], 100000, 1, false, true, 1, 5)
	s.call("svc", []sdk.AccAddress{pupd}, s.A.Stranger, 100000, 1, false, true, 1, 5)
	for b := 0; b < 11; b++ {
		for _, rid := range s.pendingOf("", pbad) {
			s.respond(rid, pbad, 0)
		}
		for _, rid := range s.pendingOf("", pupd) {
			s.respond(rid, pupd, 0)
		}
		for _, rid := range s.pendingOf(id, p1) {
			kind := 0
			if b == 3 {
				kind = 1 // a malformed response in the middle
			}
			s.respond(rid, p1, kind)
		}
		if b == 5 {
			// jump so that the next block time is 1 ns before / exactly at a boundary
			s.r.Block(blockDt - 1)
			s.r.Block(1)
			continue
		}
		s.block()
	}
	s.done()
}

func priceCases() []priceCase {
	var out []priceCase
	for _, base := range []string{"0", "1", "2", "3", "5", "7", "10", "0.9", "1.5", "13", "100"} {
		for _, td := range []string{"", "0.1", "0.5", "0.9", "0.7", "0.999", "0.000000000000000001"} {
			for _, vd := range []string{"", "0.5", "0.25", "0.8", "0.3"} {
				for _, va := range []uint64{1, 2, 4} {
					if vd == "" && va != 1 {
						continue
					}
					for _, cd := range []int64{0, -1, -2, -3, -4} {
						if cd <= -2 && td == "" && vd == "" {
							continue
						}
						out = append(out, priceCase{Base: base, TimeDisc: td, VolDisc: vd, VolAt: va, CapDelta: cd})
					}
				}
			}
		}
	}
	return out
}

// ---------------------------------------------------------------------------
// F5: deposits around the minimum; slash; refund timing

type depositCase struct {
	Base      int64
	Multiple  int64
	MinParam  int64
	Slash     string
	DepDelta  int64 // deposit at bind = minimum + DepDelta
	NewBase   int64 // price update
	TopUp     int64 // relative to what the new price needs
	Failures  int   // requests left to expire in one block
	RefundOff int64 // ns relative to the refundable instant
}

func runDeposit(a *App, mon *Mon, seed int64, c depositCase) {
	p := baseParams()
	p.MinDepositMultiple = c.Multiple
	if c.MinParam == 0 {
		p.MinDeposit = sdk.Coins{}
	} else {
		p.MinDeposit = coins(c.MinParam)
	}
	p.SlashFraction = sdk.MustNewDecFromStr(c.Slash)
	s := newSc(a, mon, fmt.Sprintf("deposit-%+v", c), seed, p, 1_000_000, 3, "")
	o := s.A.Owners[0]
	p1, p2 := s.A.SignProv[0], s.A.OddProv[0]
	s.define("svc")
	pr := price(fmt.Sprint(c.Base))
	min := MinDeposit(p, mustPricing(pr)).Int64()
	dep := min + c.DepDelta
	if dep < 0 {
		dep = 0
	}
	s.bind("svc", p1, o, dep, pr, 1)
	s.bind("svc", p1, o, min, pr, 1) // second attempt with exactly the minimum (or duplicate)
	s.bind("svc", p2, o, min+5, pr, 1)
	// price change with a top-up around what it needs
	npr := price(fmt.Sprint(c.NewBase))
	nmin := MinDeposit(p, mustPricing(npr)).Int64()
	cur := int64(0)
	if b, ok := s.r.pre.Bindings[bkey("svc", p1)]; ok {
		cur = coinsAmt(b.Deposit).Int64()
	}
	need := nmin - cur + c.TopUp
	if need < 0 {
		need = 0
	}
	s.r.Msg(types.NewMsgUpdateServiceBinding("svc", p1, coins(need), npr, 0, "{}", o), "price change")
	s.r.Msg(types.NewMsgUpdateServiceBinding("svc", p1, nil, "", 1, "{}", o), "response time only")
	// failures: contexts left to expire
	cons := s.A.Consumers[0]
	for i := 0; i < c.Failures; i++ {
		s.call("svc", []sdk.AccAddress{p1, p2}, cons, 1000, 1, false, false, 0, 0)
	}
	s.block()
	s.block() // expiry: slashes
	// disable / enable around the minimum
	s.r.Msg(types.NewMsgDisableServiceBinding("svc", p1, o), "")
	s.r.Msg(types.NewMsgDisableServiceBinding("svc", p2, o), "")
	var bmin, bdep int64
	if b, ok := s.r.pre.Bindings[bkey("svc", p1)]; ok {
		bmin = MinDeposit(p, mustPricing(b.Pricing)).Int64()
		bdep = coinsAmt(b.Deposit).Int64()
	}
	short := bmin - bdep
	if short > 1 {
		s.r.Msg(types.NewMsgEnableServiceBinding("svc", p1, coins(short-1), o), "enable one unit short")
	}
	if short < 0 {
		short = 0
	}
	s.r.Msg(types.NewMsgEnableServiceBinding("svc", p1, coins(short), o), "enable with exactly the missing amount")
	s.r.Msg(types.NewMsgDisableServiceBinding("svc", p1, o), "")
	// refund timing
	b := s.r.pre.Bindings[bkey("svc", p1)]
	deadline := b.DisabledTime.Add(p.ArbitrationTimeLimit).Add(p.ComplaintRetrospect)
	s.r.Msg(types.NewMsgRefundServiceDeposit("svc", p1, o), "too early")
	if d := deadline.Add(time.Duration(c.RefundOff)).Sub(s.r.w.now); d > 0 {
		s.r.Block(d)
	}
	s.r.Msg(types.NewMsgRefundServiceDeposit("svc", p1, s.A.Stranger), "wrong signer")
	s.r.Msg(types.NewMsgRefundServiceDeposit("svc", p1, o), fmt.Sprintf("refund at deadline%+dns", c.RefundOff))
	s.r.Msg(types.NewMsgRefundServiceDeposit("svc", p1, o), "second refund")
	s.r.Msg(types.NewMsgEnableServiceBinding("svc", p1, coins(bmin), o), "re-enable after refund")
	s.r.Msg(types.NewMsgRefundServiceDeposit("svc", p1, o), "refund of an available binding")
	s.r.Msg(types.NewMsgDisableServiceBinding("svc", p1, o), "")
	s.r.Block(15*time.Second - 1)
	s.r.Msg(types.NewMsgRefundServiceDeposit("svc", p1, o), "1ns early after re-disable")
	s.r.Block(1)
	s.r.Msg(types.NewMsgRefundServiceDeposit("svc", p1, o), "exactly at the deadline")
	s.r.Msg(types.NewMsgRefundServiceDeposit("svc", p2, o), "other binding still waiting")
	s.block()
	if c.Failures%2 == 1 {
		// after a zero-height restart the provider still belongs to its owner
		s.r.Restart()
	}
	// two services whose names differ only in letter case, same provider, very different prices
	s.define("pf")
	s.define("PF")
	hi := price("100")
	himin := MinDeposit(p, mustPricing(hi)).Int64()
	p5 := s.A.SignProv[5]
	s.bind("pf", p5, o, himin, hi, 1)
	s.bind("PF", p5, o, himin, price("1"), 1)
	s.call("pf", []sdk.AccAddress{p5}, cons, 1000, 1, false, false, 0, 0)
	s.block()
	s.block() // the unanswered request is slashed: "pf" must fall below its own minimum
	s.define("svc2")
	s.bind("svc2", p1, s.A.Owners[1], min+nmin+1000, pr, 1) // another owner tries to take the provider over
	s.bind("svc2", p1, o, min+nmin+1000, pr, 1)
	s.block()
	s.done()
}

// amounts around 2^63 and 2^64: valid, far below the 256-bit limit, beyond 64-bit arithmetic
func runWhale(a *App, mon *Mon, seed int64, variant int) {
	p := baseParams()
	p.MinDepositMultiple = []int64{200, 1, 3}[variant%3]
	p.MinDeposit = coins(6000)
	p.SlashFraction = sdk.MustNewDecFromStr([]string{"0.5", "0.001", "1"}[variant%3])
	r := NewRun(a, fmt.Sprintf("whale-%d", variant), seed, p, mon)
	act := MakeActors()
	act.FundAll(r, 1_000_000_000, 1_000_000, 3)
	whale := addr20("whale")
	huge, _ := sdk.NewIntFromString("1000000000000000000000000000000000000000")
	r.w.Fund("whale", whale, huge)
	r.w.Fund("consumer1", act.Consumers[0], huge)
	r.hist.Setup.BigFunds = append(r.hist.Setup.BigFunds, FundRec{Name: "whale", Addr: hexs(whale), Amount: huge.String()}, FundRec{Name: "consumer1", Addr: hexs(act.Consumers[0]), Amount: huge.String()})
	r.SetViaApp(variant%2 == 0)
	r.Begin()
	s := &Sc{r: r, A: act, p: p}
	base := []string{"92233720368547759", "9223372036854775807", "18446744073709551616", "4611686018427387904"}[variant%4]
	pr := price(base)
	min := MinDeposit(p, mustPricing(pr))
	p1 := s.A.SignProv[0]
	s.define("svc")
	dep := sdk.NewIntFromBigInt(min).AddRaw(int64(variant % 2))
	s.r.Msg(types.NewMsgBindService("svc", p1, sdk.NewCoins(sdk.NewCoin(denom, dep)), pr, 1, "{}", whale), "deposit just at a minimum beyond 2^64")
	capAmt, _ := sdk.NewIntFromString("100000000000000000000")
	s.r.Msg(types.NewMsgCallService("svc", []sdk.AccAddress{p1}, s.A.Consumers[0], goodInput, sdk.NewCoins(sdk.NewCoin(denom, capAmt)), 1, false, true, 1, 3), "")
	s.block()
	s.block() // unanswered: slash takes the deposit below its true minimum
	for _, rid := range s.pendingOf("", nil) {
		_ = rid
	}
	for _, rid := range s.r.pre.PendingIDs() {
		s.respond(rid, p1, variant%3)
	}
	s.block()
	s.r.Msg(types.NewMsgWithdrawEarnedFees(whale, nil), "")
	s.block()
	s.block()
	s.done()
}

func mustPricing(text string) *OPricing {
	op, err := ParsePricingText(text)
	must(err)
	return op
}

func depositCases() []depositCase {
	var out []depositCase
	for _, base := range []int64{0, 1, 7} {
		for _, mult := range []int64{1, 10} {
			for _, mp := range []int64{0, 50} {
				for _, sl := range []string{"0", "0.001", "0.5", "1"} {
					for _, dd := range []int64{-1, 0, 3} {
						for _, nb := range []int64{0, 9} {
							for _, tu := range []int64{-1, 0} {
								out = append(out, depositCase{Base: base, Multiple: mult, MinParam: mp, Slash: sl, DepDelta: dd, NewBase: nb, TopUp: tu,
									Failures: int((base + mult + dd + nb + 4) % 4), RefundOff: []int64{-1, 0, 1}[(base+nb+dd+2)%3]})
							}
						}
					}
				}
			}
		}
	}
	return out
}

// ---------------------------------------------------------------------------
// F6: earnings and withdrawals with prefix-related providers

type earnCase struct {
	Order  int // permutation index of the withdrawals
	WaWhen int // 0 never, 1 before earnings, 2 between, 3 after
	Tax    string
}

func runEarn(a *App, mon *Mon, seed int64, c earnCase) {
	p := baseParams()
	p.ServiceFeeTax = sdk.MustNewDecFromStr(c.Tax)
	s := newSc(a, mon, fmt.Sprintf("earn-%+v", c), seed, p, 1_000_000, 3, "")
	o1, o2, o3 := s.A.Owners[0], s.A.Owners[1], s.A.Owners[2]
	p1, p2, p3, p4 := s.A.SignProv[0], s.A.SignProv[1], s.A.SignProv[2], s.A.SignProv[3]
	short1 := s.A.OddProv[0] // 13-byte prefix of p1, owned by o2
	short2 := s.A.OddProv[1] // 1-byte prefix of p2, owned by o3
	short3 := s.A.OddProv[7] // p3 without its denom tail, owned by o2
	s.define("svc")
	s.bind("svc", p1, o1, 1000, price("10"), 1)
	s.bind("svc", p2, o1, 1000, price("7"), 1)
	s.bind("svc", p3, o2, 1000, price("5"), 1)
	s.bind("svc", p4, o3, 1000, price("3"), 1)
	s.bind("svc", short1, o2, 1000, price("1"), 1)
	s.bind("svc", short2, o3, 1000, price("1"), 1)
	s.bind("svc", short3, o2, 1000, price("1"), 1)
	s.bind("svc", o1, o1, 1000, price("2"), 1) // an owner that is its own provider
	q, pff, p19 := s.A.SignProv[5], s.A.SignProv[6], s.A.OddProv[8]
	s.bind("svc", q, o1, 1000, price("4"), 1)   // 20 bytes = p19 followed by 0x01
	s.bind("svc", p19, o2, 1000, price("6"), 1) // 19-byte prefix of q, another owner; answers for itself
	s.bind("svc", pff, o3, 1000, price("8"), 1) // address starting with 0xff
	if c.WaWhen == 1 {
		s.r.Msg(types.NewMsgSetWithdrawAddress(o1, s.A.Wallets[0]), "")
		s.r.Msg(types.NewMsgSetWithdrawAddress(o2, s.A.Wallets[1]), "")
	}
	cons := s.A.Consumers[0]
	earnRound := func() {
		id := s.call("svc", []sdk.AccAddress{p1, p2, p3, p4, o1, q, p19, pff}, cons, 100, 2, false, false, 0, 0)
		s.block()
		for _, pr := range []sdk.AccAddress{p1, p2, p3, p4, o1, q, p19, pff} {
			for _, rid := range s.pendingOf(id, pr) {
				s.respond(rid, pr, 0)
			}
		}
		s.block()
	}
	earnRound()
	if c.WaWhen == 2 {
		s.r.Msg(types.NewMsgSetWithdrawAddress(o1, s.A.Wallets[0]), "")
		s.r.Msg(types.NewMsgSetWithdrawAddress(o3, o1), "another owner's account as wallet")
	}
	earnRound()
	type wd struct{ o, p sdk.AccAddress }
	ws := []wd{{o2, short1}, {o3, short2}, {o2, short3}, {o1, p1}, {o1, nil}, {o2, nil}, {o3, p4}, {o1, p2}, {o2, p3}, {o1, o1}, {o3, nil}, {o2, p1}, {o1, short1},
		{o2, p19}, {o1, q}, {o3, pff}, {o2, p19}, {o3, nil},
		// the withdrawal address is a payee, not a signer: it cannot trigger a payout
		{s.A.Wallets[0], p1}, {s.A.Wallets[1], p3}, {o1, p4}, {s.A.Wallets[0], nil}}
	rng := rand.New(rand.NewSource(int64(c.Order)*7919 + 1))
	rng.Shuffle(len(ws), func(i, j int) { ws[i], ws[j] = ws[j], ws[i] })
	for i, w := range ws {
		s.r.Msg(types.NewMsgWithdrawEarnedFees(w.o, w.p), "")
		if i == 4 {
			if c.WaWhen == 3 {
				s.r.Msg(types.NewMsgSetWithdrawAddress(o2, s.A.Wallets[0]), "")
				if c.Order%8 >= 4 {
					s.r.Msg(types.NewMsgSetWithdrawAddress(o3, s.r.w.actors["feecollector"]), "an existing module account (fee collector) as wallet")
				}
			}
			earnRound()
		}
	}
	s.block()
	s.done()
}

func earnCases(n int) []earnCase {
	var out []earnCase
	for i := 0; i < n; i++ {
		out = append(out, earnCase{Order: i, WaWhen: i % 4, Tax: []string{"0.1", "0", "0.5", "0.999999999999999999"}[(i/4)%4]})
	}
	return out
}

// ---------------------------------------------------------------------------
// F7: module-service calls

type modSvcCase struct {
	Pricing   string
	Cap       int64
	Behaviour ModSvcBehaviour
	Balance   int64
	Disable   bool
}

func runModSvc(a *App, mon *Mon, seed int64, c modSvcCase) {
	p := baseParams()
	p.SlashFraction = sdk.NewDecWithPrec(5, 1)
	s := newSc(a, mon, fmt.Sprintf("modsvc-%+v", c), seed, p, c.Balance, 0, c.Pricing)
	s.r.SetModSvcBehaviour(c.Behaviour)
	cons := s.A.Consumers[1]
	call := func(cn sdk.AccAddress, cap int64) {
		s.r.Msg(types.NewMsgCallService(modSvcName, []sdk.AccAddress{s.r.w.a.modSvcProvider}, cn, goodInput, coins(cap), 1, false, false, 0, 0), "module-service")
	}
	call(cons, c.Cap)
	call(cons, c.Cap)
	// users cannot bind the reserved service
	s.r.Msg(types.NewMsgBindService(modSvcName, s.A.SignProv[0], coins(1000), price("1"), 1, "{}", s.A.Owners[0]), "bind reserved service")
	s.block()
	call(s.A.Consumers[0], c.Cap)
	// hostile shape: repeated / super / many providers in the message are ignored for module services
	s.r.Msg(types.NewMsgCallService(modSvcName, []sdk.AccAddress{s.A.SignProv[0], s.A.SignProv[1]}, s.A.Consumers[0], goodInput, coins(c.Cap+3), 3, true, true, 5, 4), "module-service hostile shape")
	s.block()
	s.block()
	s.r.SetModSvcBehaviour(ModSvcMalformed)
	call(s.A.Consumers[0], c.Cap+5)
	s.block()
	s.block()
	s.done()
}

func modSvcCases() []modSvcCase {
	var out []modSvcCase
	for _, pr := range []string{"0", "1", "3", "0.5"} {
		for _, cap := range []int64{1, 2, 3, 10} {
			for _, b := range []ModSvcBehaviour{ModSvcGood, ModSvcMalformed, ModSvcNoOutput} {
				for _, bal := range []int64{0, 1, 3, 100} {
					out = append(out, modSvcCase{Pricing: price(pr), Cap: cap, Behaviour: b, Balance: bal})
				}
			}
		}
	}
	return out
}

// ---------------------------------------------------------------------------
// F8: boundary-shape messages (every field at an extreme that ValidateBasic accepts)

func runBoundary(a *App, mon *Mon, seed int64, variant int) {
	p := baseParams()
	if variant%2 == 1 {
		p.MinDeposit = sdk.Coins{}
		p.MinDepositMultiple = math.MaxInt64
	}
	s := newSc(a, mon, fmt.Sprintf("boundary-%d", variant), seed, p, 1_000_000, 3, price("1"))
	o := s.A.Owners[0]
	cons := s.A.Consumers[0]
	p1 := s.A.SignProv[0]
	long := serviceNames[4]
	desc280 := string(make([]byte, 0))
	for len(desc280) < 280 {
		desc280 += "d"
	}
	tags := []string{}
	for i := 0; i < 10; i++ {
		tags = append(tags, fmt.Sprintf("%070d", i))
	}
	deep := `{"input":{"type":"object","properties":{"a":{"type":"object","properties":{"b":{"type":"object","properties":{"c":{"type":"array","items":{"type":"object"}}}}}}}},"output":{"type":"object"}}`
	s.r.Msg(types.NewMsgDefineService(long, desc280, tags, o, desc280, deep), "maximal define")
	s.r.Msg(types.NewMsgDefineService("svc", "", nil, o, "", goodSchemas), "minimal define")
	s.r.Msg(types.NewMsgDefineService("svc2", "", nil, o, "", `{"input":{},"output":{}}`), "empty schemas")
	huge, _ := sdk.NewIntFromString("57896044618658097711785492504343953926634992332820282019728792003956564819967") // 2^255-1
	hugeCoins := sdk.NewCoins(sdk.NewCoin(denom, huge))
	// binds
	s.r.Msg(types.NewMsgBindService("svc", p1, sdk.Coins{}, price("1"), 1, "{}", o), "empty deposit list")
	s.r.Msg(types.NewMsgBindService("svc", p1, nil, price("1"), 1, "{}", o), "nil deposit list")
	s.r.Msg(types.NewMsgBindService("svc", p1, hugeCoins, price("1"), 1, "{}", o), "2^255-1 deposit")
	s.r.Msg(types.NewMsgBindService("svc", p1, coins(1000), fmt.Sprintf(`{"price":"%s%s"}`, huge.String(), denom), 1, "{}", o), "2^255-1 price")
	s.r.Msg(types.NewMsgBindService("svc", p1, coins(1000), price("99999999999999999999999999999999999999"), 1, "{}", o), "huge price")
	s.r.Msg(types.NewMsgBindService("svc", p1, coins(1000), price("1"), math.MaxUint64, "{}", o), "max qos")
	s.r.Msg(types.NewMsgBindService("svc", p1, sdk.NewCoins(sdk.NewCoin("atom", sdk.NewInt(5))), price("1"), 1, "{}", o), "foreign denom deposit")
	s.r.Msg(types.NewMsgBindService("svc", p1, sdk.NewCoins(sdk.NewCoin("atom", sdk.NewInt(5)), sdk.NewCoin(denom, sdk.NewInt(5000))), price("1"), 1, "{}", o), "two-denom deposit")
	s.r.Msg(types.NewMsgBindService("svc", p1, coins(5000), `{"price":"1atom"}`, 1, "{}", o), "foreign denom price")
	s.r.Msg(types.NewMsgBindService("svc", p1, coins(5000), `{"price":"1stake","promotions_by_time":[],"promotions_by_volume":[]}`, 1, `[1,2,{"a":null}]`, o), "empty promotion lists, array options")
	s.r.Msg(types.NewMsgBindService(long, s.A.OddProv[5], coins(5000), price("2"), 5, "{}", o), "40-byte provider, 70-char name")
	s.r.Msg(types.NewMsgBindService("svc", s.A.OddProv[6], coins(5000), price("2"), 5, "{}", o), "provider with zero bytes")
	// updates / enable with extreme values
	s.r.Msg(types.NewMsgUpdateServiceBinding("svc", p1, hugeCoins, "", 0, "{}", o), "2^255-1 top-up")
	s.r.Msg(types.NewMsgUpdateServiceBinding("svc", p1, nil, fmt.Sprintf(`{"price":"%s%s"}`, huge.String(), denom), 0, "{}", o), "update to 2^255-1 price")
	s.r.Msg(types.NewMsgUpdateServiceBinding("svc", p1, nil, "", math.MaxUint64, "{}", o), "max qos update")
	s.r.Msg(types.NewMsgUpdateServiceBinding("svc", p1, sdk.NewCoins(sdk.NewCoin("atom", sdk.NewInt(1))), "", 0, "{}", o), "foreign denom top-up")
	s.r.Msg(types.NewMsgEnableServiceBinding("svc", p1, hugeCoins, o), "enable (available) with huge deposit")
	s.r.Msg(types.NewMsgDisableServiceBinding("svc", p1, o), "")
	s.r.Msg(types.NewMsgEnableServiceBinding("svc", p1, hugeCoins, o), "enable with 2^255-1 deposit")
	s.r.Msg(types.NewMsgEnableServiceBinding("svc", p1, sdk.NewCoins(sdk.NewCoin("atom", sdk.NewInt(1))), o), "enable with foreign denom")
	s.r.Msg(types.NewMsgEnableServiceBinding("svc", p1, nil, o), "enable without deposit")
	s.r.Msg(types.NewMsgSetWithdrawAddress(o, sdk.AccAddress{0x01}), "1-byte withdrawal address")
	s.r.Msg(types.NewMsgSetWithdrawAddress(o, o), "")
	// calls
	ten := append(append([]sdk.AccAddress{}, s.A.SignProv[:4]...), s.A.OddProv[:6]...)
	s.r.Msg(types.NewMsgCallService("svc", ten, cons, goodInput, coins(5), 5, false, true, 5, -1), "ten providers")
	s.r.Msg(types.NewMsgCallService("svc", []sdk.AccAddress{p1}, cons, goodInput, sdk.Coins{}, 1, false, false, 0, 0), "empty fee cap")
	s.r.Msg(types.NewMsgCallService("svc", []sdk.AccAddress{p1}, cons, goodInput, hugeCoins, 1, false, true, 1, math.MaxInt64), "max total, huge cap")
	s.r.Msg(types.NewMsgCallService("svc", []sdk.AccAddress{p1}, cons, goodInput, coins(5), 1, false, true, math.MaxUint64, 2), "frequency 2^64-1")
	s.r.Msg(types.NewMsgCallService("svc", []sdk.AccAddress{p1}, cons, goodInput, coins(5), 1, false, true, 1<<63, 2), "frequency 2^63")
	s.r.Msg(types.NewMsgCallService("svc", []sdk.AccAddress{p1}, cons, goodInput, coins(5), 1, false, true, 1<<63-1, 2), "frequency 2^63-1")
	s.r.Msg(types.NewMsgCallService("svc", []sdk.AccAddress{p1}, cons, goodInput, coins(5), math.MaxInt64, false, false, 0, 0), "timeout 2^63-1")
	s.r.Msg(types.NewMsgCallService("svc", []sdk.AccAddress{p1}, cons, goodInput, sdk.NewCoins(sdk.NewCoin("atom", sdk.NewInt(5))), 1, false, false, 0, 0), "foreign denom cap")
	s.r.Msg(types.NewMsgCallService("svc", []sdk.AccAddress{p1}, cons, `{"header":{"a":{"b":{"c":[1,[2,[3]]]}}},"body":{}}`, coins(5), 1, true, false, 0, 0), "deep input, super mode")
	s.r.Msg(types.NewMsgCallService("svc", []sdk.AccAddress{p1}, cons, goodInput, coins(5), 1, false, false, 7, 7), "one-shot with frequency/total set")
	var ctxs []string
	for _, id := range sortedKeys(s.r.pre.Contexts) {
		ctxs = append(ctxs, id)
	}
	s.block()
	for _, id := range ctxs {
		s.r.Msg(types.NewMsgUpdateRequestContext(unhex(id), nil, nil, 0, math.MaxUint64, 0, cons), "update frequency to 2^64-1")
		s.r.Msg(types.NewMsgUpdateRequestContext(unhex(id), nil, hugeCoins, 0, 0, math.MaxInt64, cons), "update total to 2^63-1")
		s.r.Msg(types.NewMsgUpdateRequestContext(unhex(id), ten, nil, 0, 0, -1, cons), "update to ten providers, total -1")
		s.r.Msg(types.NewMsgUpdateRequestContext(unhex(id), nil, nil, 0, 1<<63, 0, cons), "update frequency to 2^63")
		s.r.Msg(types.NewMsgUpdateRequestContext(unhex(id), nil, sdk.NewCoins(sdk.NewCoin("atom", sdk.NewInt(5))), 0, 0, 0, cons), "update cap to foreign denom")
	}
	for _, rid := range s.r.pre.PendingIDs() {
		r := s.r.pre.Requests[rid]
		if len(r.Provider) == 20 {
			s.r.Msg(types.NewMsgRespondService(unhex(rid), r.Provider, goodResult, `{"header":{},"body":{"deep":[[[[[[1]]]]]]}}`), "deep output")
		}
	}
	s.r.Msg(types.NewMsgWithdrawEarnedFees(o, sdk.AccAddress{0x00}), "withdraw for a 1-byte provider")
	s.r.Msg(types.NewMsgWithdrawEarnedFees(s.A.Stranger, nil), "withdraw with nothing earned")
	for b := 0; b < 8; b++ {
		s.block()
	}
	s.done()
}

// ---------------------------------------------------------------------------
// F9: definitions and bindings over prefix-related names and several owners

func runNames(a *App, mon *Mon, seed int64, variant int) {
	p := baseParams()
	s := newSc(a, mon, fmt.Sprintf("names-%d", variant), seed, p, 1_000_000, 3, "")
	rng := rand.New(rand.NewSource(seed*31 + int64(variant)))
	names := []string{"a", "ab", "a-b", "a_b", "abc", "a0", "b"}
	rng.Shuffle(len(names), func(i, j int) { names[i], names[j] = names[j], names[i] })
	for _, n := range names[:5] {
		s.r.Msg(types.NewMsgDefineService(n, "first", []string{"t"}, s.A.Owners[rng.Intn(3)], "x", goodSchemas), "")
	}
	s.r.Msg(types.NewMsgDefineService(names[0], "second definition", nil, s.A.Stranger, "y", goodSchemas), "duplicate name")
	provs := append(append([]sdk.AccAddress{}, s.A.SignProv...), s.A.OddProv...)
	for i := 0; i < 18; i++ {
		n := names[rng.Intn(len(names))]
		pr := provs[rng.Intn(len(provs))]
		o := s.A.Owners[rng.Intn(3)]
		s.bind(n, pr, o, 600, price(fmt.Sprint(1+rng.Intn(5))), 1)
	}
	// operate on everything else and make sure definitions stay put
	cons := s.A.Consumers[0]
	for _, n := range names[:3] {
		var ps []sdk.AccAddress
		for _, bk := range sortedKeys(s.r.pre.Bindings) {
			b := s.r.pre.Bindings[bk]
			if b.ServiceName == n && len(ps) < 3 {
				ps = append(ps, b.Provider)
			}
		}
		if len(ps) > 0 {
			s.call(n, ps, cons, 10, 2, false, true, 2, 2)
		}
	}
	for b := 0; b < 6; b++ {
		for _, rid := range s.r.pre.PendingIDs() {
			r := s.r.pre.Requests[rid]
			if len(r.Provider) == 20 && rng.Intn(2) == 0 {
				s.respond(rid, r.Provider, rng.Intn(3))
			}
		}
		s.block()
	}
	s.done()
}

// ---------------------------------------------------------------------------
// F10: a batch that completes early (everybody answers), then pause/start/kill placed
// between the completion and the batch's expiry block

type earlyCase struct {
	T       int64
	F       uint64
	PauseAt int // block offset after issue
	StartAt int // >= PauseAt; 0 = never
	Kill    bool
	Module  bool
	Second  int // who answers the next batch: 0 nobody, 1 all
}

func runEarly(a *App, mon *Mon, seed int64, c earlyCase) {
	p := baseParams()
	s := newSc(a, mon, fmt.Sprintf("early-%+v", c), seed, p, 1_000_000, 3, "")
	p1, p2 := s.A.SignProv[0], s.A.SignProv[1]
	s.define("svc")
	s.bind("svc", p1, s.A.Owners[0], 1000, price("2"), 1)
	s.bind("svc", p2, s.A.Owners[1], 1000, price("3"), 1)
	cons := s.A.Consumers[0]
	var id string
	if c.Module {
		cons = s.A.ModCons
		id = s.modCreate("svc", []sdk.AccAddress{p1, p2}, cons, 10, c.T, true, c.F, 4, 2)
	} else {
		id = s.call("svc", []sdk.AccAddress{p1, p2}, cons, 10, c.T, false, true, c.F, 4)
	}
	op := func(o string) {
		if c.Module {
			s.modCtl(o, id, cons)
		} else {
			s.ctl(o, id, cons)
		}
	}
	s.block() // batch 1 issued
	first := true
	for b := 1; b < int(c.F)*3+int(c.T)+3; b++ {
		rc := s.r.pre.Contexts[id]
		if first || c.Second == 1 || rc.BatchCounter == 1 {
			for _, pr := range []sdk.AccAddress{p1, p2} {
				for _, rid := range s.pendingOf(id, pr) {
					if first || c.Second == 1 {
						s.respond(rid, pr, 0)
					}
				}
			}
			first = false
		}
		if b == c.PauseAt {
			if c.Kill {
				op("kill")
			} else {
				op("pause")
			}
		}
		if c.StartAt > 0 && b == c.StartAt {
			op("start")
		}
		s.block()
	}
	s.done()
}

func earlyCases() []earlyCase {
	var out []earlyCase
	for _, T := range []int64{2, 3, 4} {
		for _, df := range []uint64{0, 1, 3} {
			for pa := 1; pa <= int(T)+1; pa++ {
				for sa := pa; sa <= int(T)+2; sa++ {
					for _, mod := range []bool{false, true} {
						out = append(out, earlyCase{T: T, F: uint64(T) + df, PauseAt: pa, StartAt: sa, Module: mod, Second: (pa + sa) % 2})
					}
				}
				out = append(out, earlyCase{T: T, F: uint64(T) + df, PauseAt: pa, StartAt: pa + 1, Kill: true, Module: pa%2 == 0})
			}
		}
	}
	return out
}

// ---------------------------------------------------------------------------
// F11: volume marathon: one request per block answered every block, volume tiers far apart

func runMarathon(a *App, mon *Mon, seed int64, variant int) {
	p := baseParams()
	p.MinDepositMultiple = 1
	p.MaxRequestTimeout = 100
	start := []int64{10, 200, 65500, 1<<32 - 30}[variant%4]
	r := NewRunAt(a, fmt.Sprintf("marathon-%d", variant), seed, p, mon, start)
	act := MakeActors()
	act.FundAll(r, 1_000_000_000, 1_000_000_000, 3)
	r.Begin()
	s := &Sc{r: r, A: act, p: p}
	tiers := [][2]string{{"10", "0.9"}, {"25", "0.5"}, {"50", "0.7"}}
	pricing := fmt.Sprintf(`{"price":"%d%s","promotions_by_volume":[`, []int{100, 7, 13, 1}[variant%4], denom)
	for i, t := range tiers {
		if i > 0 {
			pricing += ","
		}
		pricing += fmt.Sprintf(`{"volume":%s,"discount":"%s"}`, t[0], t[1])
	}
	pricing += "]}"
	p1, p2 := s.A.SignProv[0], s.A.SignProv[1]
	s.define("svc")
	s.bind("svc", p1, s.A.Owners[0], 100000, pricing, 1)
	s.bind("svc", p2, s.A.Owners[1], 100000, price("2"), 100)
	cons := s.A.Consumers[0]
	id := s.call("svc", []sdk.AccAddress{p1}, cons, 1000, 1, false, true, 1, -1)
	// a long-timeout context runs alongside and crosses the height byte boundaries in flight
	long := s.call("svc", []sdk.AccAddress{p2}, s.A.Consumers[1], 1000, 100, false, true, 100, 2)
	// a module-owned context counts its batches past 255 as well
	mod := s.modCreate("svc", []sdk.AccAddress{p1}, s.A.ModCons, 1000, 1, true, 1, -1, 1)
	for b := 0; b < 265; b++ {
		// batches 250..258 are left partly unanswered: their fees must come back at expiry
		quiet := b >= 250 && b <= 258 && b%2 == variant%2
		if !quiet {
			for _, rid := range s.pendingOf(id, p1) {
				s.respond(rid, p1, 0)
			}
			for _, rid := range s.pendingOf(mod, p1) {
				s.respond(rid, p1, 0)
			}
		}
		if b == 65 {
			for _, rid := range s.pendingOf(long, p2) {
				s.respond(rid, p2, 0)
			}
		}
		s.block()
		if b >= 253 && b <= 256 {
			s.r.Probe() // queries and the genesis scenario while the batch counters pass 255 / 256
		}
	}
	s.ctl("kill", id, cons)
	s.modCtl("kill", mod, s.A.ModCons)
	for b := 0; b < 45; b++ {
		s.block()
	}
	s.done()
}

// ---------------------------------------------------------------------------
// F12: crowd: many objects at once - N contexts of several consumers created in one block
// (all start, expire and re-start in the same blocks, all name the same provider), and more
// than a hundred providers bound to one service

func runCrowd(a *App, mon *Mon, seed int64, n int, nprov int) {
	p := baseParams()
	p.MinDeposit = coins(1)
	p.MinDepositMultiple = 1
	s := newSc(a, mon, fmt.Sprintf("crowd-%d-%d", n, nprov), seed, p, 1_000_000, 1_000_000, "")
	p1, p2 := s.A.SignProv[0], s.A.SignProv[1]
	s.define("svc")
	s.bind("svc", p1, s.A.Owners[0], 100000, price("1"), 1)
	s.bind("svc", p2, s.A.Owners[1], 100000, price("2"), 1)
	for i := 0; i < nprov; i++ {
		addr := sdk.AccAddress(sha256Sum(fmt.Sprint("crowd-provider-", i))[:1+(i*7)%32])
		s.r.TrackOnly(fmt.Sprintf("crowdprov%d", i), addr)
		s.bind("svc", addr, s.A.Owners[i%3], 10, price("1"), 1)
	}
	var ids []string
	for i := 0; i < n; i++ {
		cons := s.A.Consumers[i%2]
		rep := i%3 != 0
		ids = append(ids, s.call("svc", []sdk.AccAddress{p1, p2}, cons, 5, 2, false, rep, 2, 3))
	}
	s.block()
	// p2 answers everything, p1 answers every other request: the rest times out together
	for k, rid := range s.r.pre.PendingIDs() {
		r := s.r.pre.Requests[rid]
		if r.Provider.Equals(p2) || (k/2)%2 == 0 { // (IDs alternate p1, p2: answer p1 for every other context)
			s.respond(rid, r.Provider, 0)
		}
	}
	for b := 0; b < 9; b++ {
		s.block()
	}
	s.done()
}

// F13: one very busy block: n one-shot contexts to two providers, nobody answers, so 2n
// requests are issued in one end-of-block and 2n expire (slash + refund) in another.
// End-of-block always runs through AppModule.EndBlock here.
func runBusyBlock(a *App, mon *Mon, seed int64, n int) {
	p := baseParams()
	p.MinDeposit = coins(1)
	p.MinDepositMultiple = 1
	p.SlashFraction = sdk.NewDecWithPrec(1, 3)
	r := NewRun(a, fmt.Sprintf("busy-block-%d", n), seed, p, mon)
	act := MakeActors()
	act.FundAll(r, 1_000_000_000, 1_000_000, 3)
	r.SetViaApp(true)
	r.Begin()
	s := &Sc{r: r, A: act, p: p}
	p1, p2 := act.SignProv[0], act.SignProv[1]
	s.define("svc")
	s.bind("svc", p1, act.Owners[0], 100000000, price("1"), 1)
	s.bind("svc", p2, act.Owners[1], 100000000, price("2"), 1)
	for i := 0; i < n; i++ {
		s.call("svc", []sdk.AccAddress{p1, p2}, act.Consumers[i%2], 5, 2, false, false, 0, 0)
	}
	for b := 0; b < 5; b++ {
		s.block()
	}
	s.done()
}

// ---------------------------------------------------------------------------

func sampleIdx(rng *rand.Rand, n, k int) []int {
	if k >= n {
		out := make([]int, n)
		for i := range out {
			out[i] = i
		}
		return out
	}
	return rng.Perm(n)[:k]
}

// directedJobs assembles the directed families for a property and tier.
func directedJobs(prop, tier string, seed int64) []job {
	rng := rand.New(rand.NewSource(seed*977 + 13))
	thorough := tier == "thorough"
	q := func(quick, full int) int {
		if thorough {
			return full
		}
		return quick
	}
	serves := func(ps ...string) bool {
		if prop == "all" {
			return true
		}
		for _, p := range ps {
			if p == prop {
				return true
			}
		}
		return false
	}
	var jobs []job
	det := prop == "C20"
	add := func(name string, f func(a *App, mon *Mon) *Run) {
		jobs = append(jobs, job{name, func(a *App, mon *Mon) {
			r := f(a, mon)
			if det && r != nil {
				checkDeterminism(mon, r, 3, false)
			}
		}})
	}
	// light-weight share of every family for every property, full weight where it serves
	weight := func(ps ...string) int {
		if serves(ps...) {
			return 4
		}
		return 1
	}

	for v := 0; v < nScripts; v++ {
		v := v
		add("script", func(a *App, mon *Mon) *Run { runScript(a, mon, seed, v); return mon.run })
		// ... and once more on a chain of its own, through BeginBlock / EndBlock / Commit
		add("script-commit", func(a *App, mon *Mon) *Run {
			a.nextCommit = true
			runScript(a, mon, seed, v)
			a.nextCommit = false
			return mon.run
		})
	}
	cc := cadenceCases()
	for _, i := range sampleIdx(rng, len(cc), q(60*weight("C09", "C10", "C11", "C16", "C12"), len(cc))) {
		c := cc[i]
		add("cadence", func(a *App, mon *Mon) *Run { runCadence(a, mon, seed, c); return mon.run })
	}
	if !thorough && serves("C10", "C11", "C18", "C08") {
		for _, c := range lowStartCases() {
			c := c
			add("cadence-low-start", func(a *App, mon *Mon) *Run { runCadence(a, mon, seed, c); return mon.run })
		}
	}
	for _, c := range respCases(rng, q(40*weight("C08", "C02", "C12", "C04"), 3000)) {
		c := c
		add("resp", func(a *App, mon *Mon) *Run { runResp(a, mon, seed+int64(len(c.Offsets)), c); return mon.run })
	}
	fc := fundsCases()
	for _, i := range sampleIdx(rng, len(fc), q(25*weight("C06", "C01", "C05", "C12", "C20"), len(fc))) {
		c := fc[i]
		add("funds", func(a *App, mon *Mon) *Run { runFunds(a, mon, seed, c); return mon.run })
	}
	pc := priceCases()
	for _, i := range sampleIdx(rng, len(pc), q(30*weight("C07", "C01", "C06"), len(pc))) {
		c := pc[i]
		add("price", func(a *App, mon *Mon) *Run { runPrice(a, mon, seed, c); return mon.run })
	}
	dc := depositCases()
	for _, i := range sampleIdx(rng, len(dc), q(40*weight("C14", "C03", "C04"), len(dc))) {
		c := dc[i]
		add("deposit", func(a *App, mon *Mon) *Run { runDeposit(a, mon, seed, c); return mon.run })
	}
	for _, c := range earnCases(q(8*weight("C13", "C18", "C17"), 400)) {
		c := c
		add("earn", func(a *App, mon *Mon) *Run { runEarn(a, mon, seed, c); return mon.run })
	}
	mc := modSvcCases()
	for _, i := range sampleIdx(rng, len(mc), q(15*weight("C01", "C02", "C10", "C16"), len(mc))) {
		c := mc[i]
		add("modsvc", func(a *App, mon *Mon) *Run { runModSvc(a, mon, seed, c); return mon.run })
	}
	ec := earlyCases()
	for _, i := range sampleIdx(rng, len(ec), q(20*weight("C12", "C10", "C11", "C16", "C09"), len(ec))) {
		c := ec[i]
		add("early", func(a *App, mon *Mon) *Run { runEarly(a, mon, seed, c); return mon.run })
	}
	for v := 0; v < q(2*weight("C07", "C18", "C11"), 16); v++ {
		v := v
		add("marathon", func(a *App, mon *Mon) *Run { runMarathon(a, mon, seed, v); return mon.run })
	}
	for v := 0; v < q(3*weight("C04", "C14", "C01", "C02"), 12); v++ {
		v := v
		add("whale", func(a *App, mon *Mon) *Run { runWhale(a, mon, seed, v); return mon.run })
	}
	add("crowd", func(a *App, mon *Mon) *Run { runCrowd(a, mon, seed, 45, 0); return mon.run })
	if thorough || serves("C20") {
		add("busy-block", func(a *App, mon *Mon) *Run { runBusyBlock(a, mon, seed, 260); return mon.run })
	}
	if thorough || serves("C02", "C08", "C12", "C15", "C16", "C17", "C11", "C18", "C01", "C06", "C10") {
		add("crowd", func(a *App, mon *Mon) *Run { runCrowd(a, mon, seed, 135, 105); return mon.run })
	}
	for v := 0; v < q(2, 4); v++ {
		v := v
		add("boundary", func(a *App, mon *Mon) *Run { runBoundary(a, mon, seed, v); return mon.run })
	}
	for v := 0; v < q(4*weight("C15", "C17", "C18"), 300); v++ {
		v := v
		add("names", func(a *App, mon *Mon) *Run { runNames(a, mon, seed, v); return mon.run })
	}
	if prop == "C20" || prop == "all" {
		jobs = append([]job{{"wall-clock-probe", func(a *App, mon *Mon) { wallClockProbe(a, mon, seed) }}}, jobs...)
	}
	return jobs
}

func extraChecks(prop, tier string, seed int64, stats *Stats) {
	want := func(p string) bool { return prop == "all" || prop == p }
	if want("C18") {
		st := NewStats()
		n := 300
		if tier == "thorough" {
			n = 3000
		}
		staticC18(NewApp(), NewMon(st), seed, n)
		stats.Merge(st)
	}
}
