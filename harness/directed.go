package main

// Directed families: short scripts with enumerated parameters (see DESIGN 2.4).

func directedJobs(prop, tier string, seed int64) []job {
	return nil
}

func extraChecks(prop, tier string, seed int64, stats *Stats) {}

func cmdDigest(args []string) {}
