package main

// racereport: offline checker over the Go race detector's log files produced by a
// -race build of this engine running 16 replicas (one app instance each) concurrently.
// The only memory the replicas share is package-level state of the module and of the
// libraries it calls; a report with a frame inside github.com/irismod/service (other
// than the simapp wiring) means block processing depends on timing.

import (
	"encoding/json"
	"flag"
	"fmt"
	"io/ioutil"
	"os"
	"path/filepath"
	"regexp"
	"sort"
	"strings"
)

var reLineNo = regexp.MustCompile(`:\d+ \+0x[0-9a-f]+|:\d+`)

func cmdRaceReport(args []string) {
	fs := flag.NewFlagSet("racereport", flag.ExitOnError)
	logs := fs.String("logs", "", "log_path prefix given to GORACE")
	evidence := fs.String("evidence", "", "evidence file to amend")
	workers := fs.Int("workers", 16, "concurrent replicas that ran")
	exitCode := fs.Int("run-exit", 0, "exit status of the -race run")
	fs.Parse(args)
	files, _ := filepath.Glob(*logs + "*")
	total, inModule := 0, 0
	distinct := map[string]string{}
	for _, f := range files {
		b, err := ioutil.ReadFile(f)
		if err != nil {
			continue
		}
		for _, blk := range strings.Split(string(b), "==================") {
			if !strings.Contains(blk, "WARNING: DATA RACE") {
				continue
			}
			total++
			var frames []string
			for _, l := range strings.Split(blk, "\n") {
				l = strings.TrimSpace(l)
				if strings.HasPrefix(l, "github.com/irismod/service") && !strings.HasPrefix(l, "github.com/irismod/service/app.") {
					frames = append(frames, reLineNo.ReplaceAllString(l, ""))
				}
			}
			if len(frames) == 0 {
				continue
			}
			inModule++
			sort.Strings(frames)
			key := strings.Join(frames, " | ")
			if _, ok := distinct[key]; !ok {
				distinct[key] = f
			}
		}
	}
	viol := 0
	for key, f := range distinct {
		viol++
		fmt.Printf("VIOLATION property=C20 replay=%s\n  signature=C20/data-race:%s\n", f, firstWords(key, 3))
	}
	if *evidence != "" {
		var ev map[string]interface{}
		if b, err := ioutil.ReadFile(*evidence); err == nil && json.Unmarshal(b, &ev) == nil {
			cov, _ := ev["coverage"].(map[string]interface{})
			if cov != nil {
				cov["race_detector"] = map[string]interface{}{
					"ran": true, "concurrent_replicas": *workers, "log_files": len(files), "reports_total": total,
					"reports_with_module_frame": inModule, "distinct_module_reports": len(distinct), "run_exit_status": *exitCode,
				}
			}
			if v, ok := ev["violations"].(float64); ok {
				ev["violations"] = int(v) + viol
			}
			ioutil.WriteFile(*evidence, mustJSON(ev), 0o644)
		}
	}
	fmt.Printf("race detector: %d report blocks in %d log files, %d touch the module (%d distinct)\n", total, len(files), inModule, len(distinct))
	if viol > 0 {
		os.Exit(1)
	}
}
