package main

import (
	"encoding/json"
	"flag"
	"fmt"
	"io/ioutil"
	"os"
	"path/filepath"
	"runtime/debug"
	"sort"
	"strings"
	"sync"
	"sync/atomic"
	"time"
)

type KnownFinding struct {
	Property  string `json:"property"`
	Signature string `json:"signature"` // exact violation signature, or prefix ending in '*'
	What      string `json:"what"`
}

type KnownFile struct {
	Findings []KnownFinding `json:"findings"`
	Fixed    []string       `json:"fixed"`
}

func loadKnown(path string) KnownFile {
	var kf KnownFile
	b, err := ioutil.ReadFile(path)
	if err != nil {
		return kf
	}
	must(json.Unmarshal(b, &kf))
	return kf
}

func (kf KnownFile) match(v Violation) *KnownFinding {
	for i, f := range kf.Findings {
		if f.Property != v.Prop {
			continue
		}
		if f.Signature == v.Sig || (strings.HasSuffix(f.Signature, "*") && strings.HasPrefix(v.Sig, strings.TrimSuffix(f.Signature, "*"))) {
			return &kf.Findings[i]
		}
	}
	return nil
}

type job struct {
	name string
	run  func(a *App, mon *Mon)
}

func runJobs(jobs []job, workers int, mkMon func(*Stats) *Mon) *Stats {
	total := NewStats()
	var mu sync.Mutex
	var wg sync.WaitGroup
	ch := make(chan job, len(jobs))
	for _, j := range jobs {
		ch <- j
	}
	close(ch)
	for i := 0; i < workers; i++ {
		wg.Add(1)
		go func() {
			defer wg.Done()
			a := NewApp()
			st := NewStats()
			statsMu.Lock()
			allStats = append(allStats, st)
			statsMu.Unlock()
			for j := range ch {
				mon := mkMon(st)
				func() {
					defer func() {
						if r := recover(); r != nil {
							mu.Lock()
							fmt.Fprintf(os.Stderr, "HARNESS-PANIC in %s: %v\n", j.name, r)
							if os.Getenv("CHAINMON_STACK") != "" {
								fmt.Fprintf(os.Stderr, "%s\n", debug.Stack())
							}
							total.Hits["harness/panic"]++
							mu.Unlock()
							a = NewApp()
						}
					}()
					j.run(a, mon)
				}()
			}
			mu.Lock()
			total.Merge(st)
			mu.Unlock()
		}()
	}
	wg.Wait()
	return total
}

func main() {
	if len(os.Args) < 2 {
		fmt.Println("usage: chainmon run|replay ...")
		os.Exit(2)
	}
	switch os.Args[1] {
	case "run":
		cmdRun(os.Args[2:])
	case "replay":
		cmdReplay(os.Args[2:])
	case "script":
		cmdScript(os.Args[2:])
	case "digest":
		cmdDigest(os.Args[2:])
	case "gen":
		// debugging aid: run one random history by its seed and print its digests
		var sd int64
		fmt.Sscan(os.Args[2], &sd)
		r := RandomHistory(NewApp(), NewMon(NewStats()), sd, 120)
		for _, x := range r.digests {
			fmt.Println("D", x)
		}
	case "racereport":
		cmdRaceReport(os.Args[2:])
	default:
		fmt.Println("unknown command")
		os.Exit(2)
	}
}

func cmdRun(args []string) {
	fs := flag.NewFlagSet("run", flag.ExitOnError)
	prop := fs.String("prop", "all", "property id (Cxx) or all")
	tier := fs.String("tier", "quick", "quick|thorough")
	seed := fs.Int64("seed", 1, "PRNG seed")
	workers := fs.Int("workers", 16, "parallel workers")
	nrand := fs.Int("random", -1, "override number of random histories")
	steps := fs.Int("steps", 120, "steps per random history")
	outDir := fs.String("out", "/verif", "verif root (evidence/, replays/, known_findings.json)")
	verbose := fs.Bool("v", false, "print every violation signature")
	fs.Parse(args)

	t0 := time.Now()
	// generous wall-clock watchdog: its firing is "inconclusive", never a violation by itself
	limit := 12 * time.Minute
	if *tier == "thorough" {
		limit = 100 * time.Minute
	}
	go func() {
		time.Sleep(limit)
		atomic.StoreInt32(&watchdogFired, 1)
		// steps become no-ops now; if some step never returns, report what the monitors have
		// seen so far and leave
		time.Sleep(60 * time.Second)
		statsMu.Lock()
		partial := NewStats()
		for _, st := range allStats {
			partial.Violations = append(partial.Violations, st.Violations...)
			for k, v := range st.VioHist {
				if _, ok := partial.VioHist[k]; !ok {
					partial.VioHist[k], partial.VioBy[k] = v, st.VioBy[k]
				}
			}
		}
		kf := loadKnown(filepath.Join(*outDir, "known_findings.json"))
		props := []string{*prop}
		if *prop == "all" {
			props = allProps
		}
		code := 3
		for _, p := range props {
			if reportViolations(p, *seed, partial, kf, *outDir) > 0 {
				code = 1
			}
		}
		fmt.Printf("INCONCLUSIVE watchdog: a step did not return within %s + 60 s (hang); violations observed until then are listed above\n", limit)
		os.Exit(code)
	}()
	n := 500
	if *tier == "thorough" {
		n = 12000
	}
	if *nrand >= 0 {
		n = *nrand
	}
	var jobs []job
	for i := 0; i < n; i++ {
		s := *seed*1_000_003 + int64(i)
		st := *steps
		idx := i
		jobs = append(jobs, job{fmt.Sprintf("random-%d", s), func(a *App, mon *Mon) {
			r := RandomHistory(a, mon, s, st)
			if *prop == "C20" || (*prop == "all" && idx%10 == 0) {
				checkDeterminism(mon, r, 2, idx%25 == 0)
			}
		}})
	}
	jobs = append(directedJobs(*prop, *tier, *seed), jobs...) // the long directed jobs first
	want := func(p string) bool { return *prop == "all" || *prop == p }
	stats := runJobs(jobs, *workers, func(st *Stats) *Mon {
		m := NewMon(st)
		if want("C19") || *prop == "C09" || *prop == "C10" || *prop == "C03" || *prop == "C11" || *prop == "C15" || *prop == "C16" || *prop == "C12" || *prop == "C07" || *prop == "C02" || *prop == "C05" || *prop == "C14" || *prop == "C06" || *prop == "C04" || *prop == "C08" || *prop == "C01" || *prop == "C13" {
			attachC19(m, 23)
		}
		if want("C17") || *prop == "C15" {
			attachC17(m, 29)
		}
		return m
	})
	extraChecks(*prop, *tier, *seed, stats)

	props := []string{*prop}
	if *prop == "all" {
		props = allProps
	}
	kf := loadKnown(filepath.Join(*outDir, "known_findings.json"))
	exit := 0
	for _, p := range props {
		code := report(p, *tier, *seed, stats, kf, *outDir, time.Since(t0), *verbose)
		if code > exit {
			exit = code
		}
	}
	if expired() {
		fmt.Printf("INCONCLUSIVE watchdog: the workload did not finish within %s; what was observed until then is reported above\n", limit)
		if exit == 0 {
			exit = 3
		}
	}
	if stats.Hits["harness/panic"] > 0 {
		fmt.Printf("INCONCLUSIVE harness panics=%d\n", stats.Hits["harness/panic"])
		if exit == 0 {
			exit = 3
		}
	}
	os.Exit(exit)
}

var allProps = []string{"C01", "C02", "C03", "C04", "C05", "C06", "C07", "C08", "C09", "C10", "C11", "C12", "C13", "C14", "C15", "C16", "C17", "C18", "C19", "C20"}

// reportViolations prints the VIOLATION / KNOWN-FINDING lines of one property and returns
// the number of unlisted violations.
func reportViolations(p string, seed int64, stats *Stats, kf KnownFile, outDir string) int {
	n, _ := reportViolationsK(p, seed, stats, kf, outDir)
	return n
}

func report(p, tier string, seed int64, stats *Stats, kf KnownFile, outDir string, wall time.Duration, verbose bool) int {
	nViol, nKnown := reportViolationsK(p, seed, stats, kf, outDir)
	exit := 0
	if nViol > 0 {
		exit = 1
	}
	// mandatory non-vacuity
	var missing []string
	for _, r := range mandatory[p] {
		if stats.Hits[p+"/"+r] == 0 {
			missing = append(missing, r)
		}
	}
	if len(missing) > 0 && exit == 0 {
		fmt.Printf("INCONCLUSIVE property=%s rules without a non-vacuous observation: %v\n", p, missing)
		exit = 3
	}
	writeEvidence(p, tier, seed, stats, outDir, wall, nViol, missing)
	if verbose || exit == 0 {
		fmt.Printf("%s: evaluations=%d distinct-situations=%d histories=%d steps=%d violations=%d known=%d\n", p, stats.Evaluations[p], len(stats.Situations[p]), stats.Histories, stats.Steps, nViol, nKnown)
	}
	return exit
}

func reportViolationsK(p string, seed int64, stats *Stats, kf KnownFile, outDir string) (int, int) {
	// distinct violations of this property by signature
	bySig := map[string]Violation{}
	count := map[string]int{}
	for _, v := range stats.Violations {
		if v.Prop != p {
			continue
		}
		count[v.Sig]++
		if _, ok := bySig[v.Sig]; !ok {
			bySig[v.Sig] = v
		}
	}
	sigs := make([]string, 0, len(bySig))
	for s := range bySig {
		sigs = append(sigs, s)
	}
	sort.Strings(sigs)
	nViol := 0
	knownSeen := map[string]bool{}
	os.MkdirAll(filepath.Join(outDir, "replays"), 0o755)
	for _, s := range sigs {
		v := bySig[s]
		if w, ok := stats.VioBy[s]; ok {
			v = w
		}
		if k := kf.match(v); k != nil {
			if !knownSeen[k.Signature] {
				knownSeen[k.Signature] = true
				fmt.Printf("KNOWN-FINDING: property=%s %s [%s, seen in %d histories]\n", p, k.What, k.Signature, count[s])
			}
			continue
		}
		nViol++
		path := filepath.Join(outDir, "replays", fmt.Sprintf("%s-%d-%s.json", p, seed, sanitize(s)))
		if h := stats.VioHist[s]; h != nil {
			if len(h.Steps) > 10 && nViol <= 6 {
				before := len(h.Steps)
				h = shrinkHistory(h, s, 15*time.Second)
				if len(h.Steps) < before {
					v.StepIdx = -2 // step numbers refer to the original history; the replay prints the new one
					v.Msg += fmt.Sprintf(" [witness shrunk from %d to %d steps]", before, len(h.Steps))
				}
			}
			doc := map[string]interface{}{"violation": v, "history": h}
			ioutil.WriteFile(path, mustJSON(doc), 0o644)
		}
		fmt.Printf("VIOLATION property=%s replay=%s\n", p, path)
		fmt.Printf("  signature=%s histories=%d first=%s step=%d\n  %s\n", s, count[s], v.History, v.StepIdx, v.Msg)
	}
	return nViol, len(knownSeen)
}

func sanitize(s string) string {
	var sb strings.Builder
	for _, c := range s {
		switch {
		case c >= 'a' && c <= 'z', c >= 'A' && c <= 'Z', c >= '0' && c <= '9', c == '-', c == '_':
			sb.WriteRune(c)
		default:
			sb.WriteRune('_')
		}
	}
	out := sb.String()
	if len(out) > 90 {
		out = out[:90]
	}
	return out
}

func writeEvidence(p, tier string, seed int64, stats *Stats, outDir string, wall time.Duration, nViol int, missing []string) {
	hits := map[string]int{}
	for k, v := range stats.Hits {
		if strings.HasPrefix(k, p+"/") {
			hits[strings.TrimPrefix(k, p+"/")] = v
		}
	}
	var samples []interface{}
	for _, h := range stats.Samples {
		var steps []string
		for i, st := range h.Steps {
			if i >= 25 {
				steps = append(steps, fmt.Sprintf("... %d more steps", len(h.Steps)-i))
				break
			}
			steps = append(steps, st.Desc)
		}
		samples = append(samples, map[string]interface{}{"history": h.Name, "params": h.Setup.ParamsDesc, "steps": steps})
		if len(samples) >= 3 {
			break
		}
	}
	var sits []string
	for s := range stats.Situations[p] {
		sits = append(sits, s)
	}
	sort.Strings(sits)
	if len(sits) > 60 {
		sits = sits[:60]
	}
	if len(samples) == 0 {
		samples = append(samples, "no history sample recorded")
	}
	ev := map[string]interface{}{
		"property_id": p,
		"tier":        tier,
		"seed":        seed,
		"level":       "exploration",
		"coverage": map[string]interface{}{
			"evaluations":               stats.Evaluations[p],
			"distinct_nontrivial":       len(stats.Situations[p]),
			"rule":                      "evaluations = steps/states/cases on which this property's monitor rules were judged; a case is non-trivial when a rule's precondition actually applied (non-vacuous), and distinct by (rule, operation kind, outcome, small abstraction of the records involved)",
			"samples":                   samples,
			"histories":                 stats.Histories,
			"steps":                     stats.Steps,
			"rule_hits":                 hits,
			"situations_sample":         sits,
			"operation_outcomes":        stats.OpKinds,
			"rules_without_observation": missing,
		},
		"assumptions": assumptions,
		"wall_s":      wall.Seconds(),
		"violations":  nViol,
	}
	os.MkdirAll(filepath.Join(outDir, "evidence"), 0o755)
	ioutil.WriteFile(filepath.Join(outDir, "evidence", p+".json"), mustJSON(ev), 0o644)
}

var assumptions = []string{
	"signers (owners, consumers, authors, responding providers) are 20-byte addresses; providers named in bind/call messages have any length",
	"the host application supplies tx_hash and msg_index context values",
	"one token: prices and deposits are in the base denomination (the repository's only TokenKeeper)",
	"parameters vary across histories and are changed by governance steps within a history, except the minimum-deposit terms and the base denomination, which stay fixed on a live chain",
	"failed messages change nothing (baseapp's cache wrap, reproduced by the driver)",
	"held on the executions produced; nothing is claimed about inputs or schedules outside the generators",
}

// rules that must have a non-vacuous observation for the run to count as "held"
var mandatory = map[string][]string{
	"C01": {"backing", "escrow-positive", "pending-and-earned"},
	"C02": {"R1-consumer-delta", "R2-good-response", "R3-malformed-output", "R4-expiry", "R5-withdraw", "R6-settled"},
	"C03": {"custody", "S1-bind", "S1-top-up", "S2-refund-preconditions"},
	"C04": {"slash-amount", "no-failure-no-slash"},
	"C05": {"authority", "wrong-signer-rejected", "debits-only-signer", "block-debits-only-issuing-consumers"},
	"C06": {"issued", "skipped", "paused-for-funds", "fee-within-cap"},
	"C07": {"fee-follows-pricing", "fee-floored-to-one", "volume-plus-one"},
	"C08": {"admission", "accepted-in-expiry-block", "rejected-after-expiry", "expiry-height-at-issue"},
	"C09": {"control-op", "transition", "counter-advance"},
	"C10": {"first-batch", "no-overlap", "cadence", "one-shot-single-batch", "total-respected"},
	"C11": {"Q1-expiry", "Q1-start", "Q4-running-one-event", "Q5-pending-covered"},
	"C12": {"counts", "callback-arguments", "callback-per-batch"},
	"C13": {"E1-owner-sum", "E2-withdraw-provider", "E3-withdraw-owner", "E5-earn"},
	"C14": {"min-deposit"},
	"C15": {"binding-indexed", "define", "bind", "listing-by-service", "listing-by-service-and-owner"},
	"C16": {"request-in-current-batch", "expiry-cleanup", "marker-indexes-agree"},
	"C17": {"definition", "binding", "bindings-of-service", "bindings-of-service-and-owner", "pending-requests-of-binding", "earned-fees", "withdraw-address", "request-context", "requests-of-batch", "responses-of-batch", "request", "response", "params", "schema"},
	"C18": {"context-id", "request-id", "keys-distinct", "scan-exact", "issue-event-position"},
	"C19": {"prep-returns-escrow", "export-validates", "json-roundtrip", "import-export-identity"},
	"C20": {"no-panic", "replay-identical", "replay-identical-across-processes", "replay-identical-across-wall-clock", "app-hash-formed"},
}

func cmdReplay(args []string) {
	fs := flag.NewFlagSet("replay", flag.ExitOnError)
	prop := fs.String("prop", "", "only report this property")
	trace := fs.String("trace", "", "print the record of the context with this ID prefix after every step")
	steps := fs.Bool("steps", false, "print every step with its result")
	fs.Parse(args)
	if fs.NArg() < 1 {
		fmt.Println("usage: chainmon replay [-prop Cxx] [-steps] [-trace ctxprefix] <file>")
		os.Exit(2)
	}
	b, err := ioutil.ReadFile(fs.Arg(0))
	must(err)
	var doc struct {
		Violation Violation `json:"violation"`
		History   History   `json:"history"`
	}
	must(json.Unmarshal(b, &doc))
	st := NewStats()
	mon := NewMon(st)
	a := NewApp()
	if *steps {
		mon.extra = append(mon.extra, func(sc *StepCtx) {
			fmt.Printf("  [%d] h=%d %-70.70s %s res=%s new-requests=%d\n", sc.Idx, sc.Post.Height, sc.Step.Desc, sc.Step.Note, okStr(sc.Res), len(sc.Post.Requests)-len(sc.Pre.Requests))
		})
	}
	if *trace != "" {
		mon.extra = append(mon.extra, func(sc *StepCtx) {
			for id, rc := range sc.Post.Contexts {
				if strings.HasPrefix(id, *trace) {
					fmt.Printf("  [%d] %-40.40s res=%s | state=%s batch=%d/%s req=%d resp=%d expq=%v newq=%v cbs=%d\n", sc.Idx, sc.Step.Desc, okStr(sc.Res), rc.State, rc.BatchCounter, rc.BatchState, rc.BatchRequestCount, rc.BatchResponseCount, sc.Post.ExpQ[id], sc.Post.NewQ[id], len(sc.Res.Callbacks))
				}
			}
		})
	}
	Replay(a, &doc.History, mon)
	n := 0
	for _, v := range st.Violations {
		if *prop != "" && v.Prop != *prop {
			continue
		}
		n++
		fmt.Printf("VIOLATION property=%s replay=%s\n  signature=%s step=%d\n  %s\n", v.Prop, fs.Arg(0), v.Sig, v.StepIdx, v.Msg)
		if v.StepIdx >= 0 && v.StepIdx < len(doc.History.Steps) {
			lo := v.StepIdx - 6
			if lo < 0 {
				lo = 0
			}
			for i := lo; i <= v.StepIdx; i++ {
				fmt.Printf("    step %d: %s %s\n", i, doc.History.Steps[i].Desc, doc.History.Steps[i].Note)
			}
		}
	}
	if n > 0 {
		os.Exit(1)
	}
	fmt.Println("replay: no violation")
}

// cmdScript runs one fixed script with all monitors and prints every step (debugging aid).
func cmdScript(args []string) {
	v := 0
	if len(args) > 0 {
		fmt.Sscan(args[0], &v)
	}
	st := NewStats()
	mon := NewMon(st)
	attachC19(mon, 23)
	attachC17(mon, 29)
	mon.extra = append(mon.extra, func(sc *StepCtx) {
		fmt.Printf("  [%d] h=%d t=%s %-90.90s %s res=%s %.80s\n", sc.Idx, sc.Post.Height, sc.Post.Time.Format("15:04:05.999999999"), sc.Step.Desc, sc.Step.Note, okStr(sc.Res), sc.Res.Err)
	})
	if os.Getenv("CHAINMON_BINDINGS") != "" {
		mon.extra = append(mon.extra, func(sc *StepCtx) {
			if sc.IsBlock() {
				for _, bk := range sortedKeys(sc.Post.Bindings) {
					b := sc.Post.Bindings[bk]
					fmt.Printf("        %x dep=%s avail=%v\n", []byte(b.Provider), b.Deposit, b.Available)
				}
				fmt.Printf("        supply=%s deposits-account=%s\n", sc.Post.Supply, sc.Post.Bal[hexs(sc.run.w.actors["deposits"])])
			}
		})
	}
	runScript(NewApp(), mon, 1, v)
	for _, vi := range st.Violations {
		fmt.Printf("VIOLATION %s step=%d %s\n", vi.Sig, vi.StepIdx, vi.Msg)
	}
}
