package main

// A Run executes one history step by step: every step is recorded as data (so the
// history can be replayed), a snapshot is taken after it, and all monitors are
// evaluated on (pre, step, result, post).

import (
	"encoding/base64"
	"encoding/json"
	"fmt"
	"math/rand"
	"sync/atomic"
	"time"

	sdk "github.com/cosmos/cosmos-sdk/types"

	"github.com/irismod/service/types"
)

type Step struct {
	Kind      string `json:"kind"` // msg | block | mod | modsvc
	MsgType   string `json:"msg_type,omitempty"`
	MsgB64    string `json:"msg_b64,omitempty"`
	Desc      string `json:"desc,omitempty"`
	Note      string `json:"note,omitempty"`
	DtNs      int64  `json:"dt_ns,omitempty"`
	Mod       *ModOp `json:"mod,omitempty"`
	Behaviour int    `json:"behaviour,omitempty"`
	SameTx    bool   `json:"same_tx,omitempty"` // next message of the previous message's transaction
	ParamsB64 string `json:"params_b64,omitempty"`
	From      string `json:"from,omitempty"` // bank send
	To        string `json:"to,omitempty"`
	Amount    int64  `json:"amount,omitempty"`
	Rewrite   bool   `json:"rewrite,omitempty"`   // restart: the genesis is re-written in an equivalent form before it is imported
	NewChain  bool   `json:"new_chain,omitempty"` // restart: the new chain starts again at height 1 (only outside commit mode)
}

type FundRec struct {
	Name   string `json:"name"`
	Addr   string `json:"addr"`
	Amount string `json:"amount"`
	// the address is only observed: no account is created for it before the history starts
	NoAccount bool `json:"no_account,omitempty"`
}

type HistorySetup struct {
	ParamsB64     string    `json:"params_b64"`
	ParamsDesc    string    `json:"params"`
	Funds         []FundRec `json:"funds"`
	ModSvcPricing string    `json:"modsvc_pricing,omitempty"`
	ModSvcQoS     uint64    `json:"modsvc_qos,omitempty"`
	StateCbKill   bool      `json:"state_callback_kills,omitempty"`
	StartHeight   int64     `json:"start_height,omitempty"`
	ViaApp        bool      `json:"end_block_via_module_manager,omitempty"`
	KillOthers    bool      `json:"state_callback_kills_others,omitempty"`
	RespKill      bool      `json:"response_callback_kills_others,omitempty"`
	Ghost         bool      `json:"ghost_module_context,omitempty"`
	HostileHashes bool      `json:"structured_tx_hashes,omitempty"`
	BigFunds      []FundRec `json:"big_funds,omitempty"` // amounts beyond int64, funded before the first snapshot
	StartTimeNs   int64     `json:"start_time_unix_ns,omitempty"`
	Commit        bool      `json:"commit_mode,omitempty"` // own chain; BeginBlock / EndBlock / Commit of the application around every block
}

type History struct {
	Name  string       `json:"name"`
	Seed  int64        `json:"seed"`
	Setup HistorySetup `json:"setup"`
	Steps []Step       `json:"steps"`
}

type Violation struct {
	Prop    string `json:"property"`
	Rule    string `json:"rule"`
	Sig     string `json:"signature"`
	Msg     string `json:"message"`
	StepIdx int    `json:"step"`
	History string `json:"history"`
}

type Run struct {
	w                *World
	hist             *History
	pre              *Snap
	mon              *Mon
	rng              *rand.Rand
	stop             bool
	lastRes          StepResult
	digests          []string
	nodeRestartsSeen int
	simEvery         int // every simEvery-th step that is a message is first simulated (0 = never)
	maxSteps         int
}

func encodeMsg(msg sdk.Msg) (string, string) {
	type marshaler interface{ Marshal() ([]byte, error) }
	bz, err := msg.(marshaler).Marshal()
	must(err)
	return msg.Type(), base64.StdEncoding.EncodeToString(bz)
}

func decodeMsg(typ, b64 string) sdk.Msg {
	bz, err := base64.StdEncoding.DecodeString(b64)
	must(err)
	var m interface {
		sdk.Msg
		Unmarshal([]byte) error
	}
	switch typ {
	case types.TypeMsgDefineService:
		m = &types.MsgDefineService{}
	case types.TypeMsgBindService:
		m = &types.MsgBindService{}
	case types.TypeMsgUpdateServiceBinding:
		m = &types.MsgUpdateServiceBinding{}
	case types.TypeMsgSetWithdrawAddress:
		m = &types.MsgSetWithdrawAddress{}
	case types.TypeMsgDisableServiceBinding:
		m = &types.MsgDisableServiceBinding{}
	case types.TypeMsgEnableServiceBinding:
		m = &types.MsgEnableServiceBinding{}
	case types.TypeMsgRefundServiceDeposit:
		m = &types.MsgRefundServiceDeposit{}
	case types.TypeMsgCallService:
		m = &types.MsgCallService{}
	case types.TypeMsgRespondService:
		m = &types.MsgRespondService{}
	case types.TypeMsgPauseRequestContext:
		m = &types.MsgPauseRequestContext{}
	case types.TypeMsgStartRequestContext:
		m = &types.MsgStartRequestContext{}
	case types.TypeMsgKillRequestContext:
		m = &types.MsgKillRequestContext{}
	case types.TypeMsgUpdateRequestContext:
		m = &types.MsgUpdateRequestContext{}
	case types.TypeMsgWithdrawEarnedFees:
		m = &types.MsgWithdrawEarnedFees{}
	default:
		panic("unknown msg type " + typ)
	}
	must(m.Unmarshal(bz))
	return m
}

func describeMsg(msg sdk.Msg) string {
	short := func(a sdk.AccAddress) string {
		h := hexs(a)
		if len(h) > 8 {
			return h[:8] + fmt.Sprintf("(%dB)", len(a))
		}
		return h + fmt.Sprintf("(%dB)", len(a))
	}
	switch m := msg.(type) {
	case *types.MsgDefineService:
		return fmt.Sprintf("define %s by %s", m.Name, short(m.Author))
	case *types.MsgBindService:
		return fmt.Sprintf("bind %s prov=%s owner=%s dep=%s qos=%d pricing=%s", m.ServiceName, short(m.Provider), short(m.Owner), m.Deposit, m.QoS, m.Pricing)
	case *types.MsgUpdateServiceBinding:
		return fmt.Sprintf("update-binding %s prov=%s owner=%s dep=%s qos=%d pricing=%s", m.ServiceName, short(m.Provider), short(m.Owner), m.Deposit, m.QoS, m.Pricing)
	case *types.MsgSetWithdrawAddress:
		return fmt.Sprintf("set-withdraw owner=%s addr=%s", short(m.Owner), short(m.WithdrawAddress))
	case *types.MsgDisableServiceBinding:
		return fmt.Sprintf("disable %s prov=%s owner=%s", m.ServiceName, short(m.Provider), short(m.Owner))
	case *types.MsgEnableServiceBinding:
		return fmt.Sprintf("enable %s prov=%s owner=%s dep=%s", m.ServiceName, short(m.Provider), short(m.Owner), m.Deposit)
	case *types.MsgRefundServiceDeposit:
		return fmt.Sprintf("refund-deposit %s prov=%s owner=%s", m.ServiceName, short(m.Provider), short(m.Owner))
	case *types.MsgCallService:
		ps := ""
		for _, p := range m.Providers {
			ps += short(p) + ","
		}
		return fmt.Sprintf("call %s provs=[%s] consumer=%s cap=%s timeout=%d super=%v rep=%v freq=%d total=%d", m.ServiceName, ps, short(m.Consumer), m.ServiceFeeCap, m.Timeout, m.SuperMode, m.Repeated, m.RepeatedFrequency, m.RepeatedTotal)
	case *types.MsgRespondService:
		id := hexs(m.RequestId)
		if len(id) > 100 {
			id = id[64:80] + ".." + id[len(id)-36:]
		}
		return fmt.Sprintf("respond req=%s prov=%s result=%s output=%s", id, short(m.Provider), m.Result, m.Output)
	case *types.MsgPauseRequestContext:
		return fmt.Sprintf("pause ctx=%s by %s", hexs(m.RequestContextId)[:16], short(m.Consumer))
	case *types.MsgStartRequestContext:
		return fmt.Sprintf("start ctx=%s by %s", hexs(m.RequestContextId)[:16], short(m.Consumer))
	case *types.MsgKillRequestContext:
		return fmt.Sprintf("kill ctx=%s by %s", hexs(m.RequestContextId)[:16], short(m.Consumer))
	case *types.MsgUpdateRequestContext:
		return fmt.Sprintf("update-ctx ctx=%s by %s provs=%d cap=%s timeout=%d freq=%d total=%d", hexs(m.RequestContextId)[:16], short(m.Consumer), len(m.Providers), m.ServiceFeeCap, m.Timeout, m.RepeatedFrequency, m.RepeatedTotal)
	case *types.MsgWithdrawEarnedFees:
		return fmt.Sprintf("withdraw owner=%s prov=%s", short(m.Owner), short(m.Provider))
	}
	return msg.Type()
}

func paramsDesc(p types.Params) string {
	return fmt.Sprintf("maxTimeout=%d multiple=%d minDeposit=%s tax=%s slash=%s complaint=%s arbitration=%s",
		p.MaxRequestTimeout, p.MinDepositMultiple, p.MinDeposit, p.ServiceFeeTax, p.SlashFraction, p.ComplaintRetrospect, p.ArbitrationTimeLimit)
}

// every seventh step that is a message is preceded by its own simulation
const defaultSimEvery = 7

// NewRun starts a recorded history.
func NewRun(a *App, name string, seed int64, params types.Params, mon *Mon) *Run {
	return NewRunAt(a, name, seed, params, mon, startHeight)
}

func NewRunAt(a *App, name string, seed int64, params types.Params, mon *Mon, start int64) *Run {
	// a.nextCommit: the caller asked for the next history of this worker to run in commit mode
	commit := a.nextCommit
	a.nextCommit = false
	return NewRunOpt(a, name, seed, params, mon, start, commit)
}

// NewRunOpt: with commit the history gets a chain of its own (first block = start) and goes
// through the application's BeginBlock / EndBlock / Commit; a is not used then.
func NewRunOpt(a *App, name string, seed int64, params types.Params, mon *Mon, start int64, commit bool) *Run {
	if commit {
		no := a != nil && a.noNodeRestart
		a = NewAppAt(start)
		a.noNodeRestart = no
	}
	a.startAt = start
	w := a.NewWorld(params)
	pb, err := params.Marshal()
	must(err)
	r := &Run{w: w, mon: mon, rng: rand.New(rand.NewSource(seed)), maxSteps: 100000, simEvery: defaultSimEvery,
		hist: &History{Name: name, Seed: seed, Setup: HistorySetup{ParamsB64: base64.StdEncoding.EncodeToString(pb), ParamsDesc: paramsDesc(params), StartHeight: start, Commit: commit}}}
	return r
}

func (r *Run) Fund(name string, addr sdk.AccAddress, amt int64) {
	r.w.Fund(name, addr, sdk.NewInt(amt))
	r.hist.Setup.Funds = append(r.hist.Setup.Funds, FundRec{Name: name, Addr: hexs(addr), Amount: fmt.Sprint(amt)})
}

func (r *Run) TrackOnly(name string, addr sdk.AccAddress) {
	r.w.Track(name, addr)
	r.hist.Setup.Funds = append(r.hist.Setup.Funds, FundRec{Name: name, Addr: hexs(addr), Amount: "0", NoAccount: true})
}

func (r *Run) InstallModuleService(pricing string) { r.InstallModuleServiceQoS(pricing, 1) }

func (r *Run) InstallModuleServiceQoS(pricing string, qos uint64) {
	r.w.InstallModuleServiceQoS(pricing, qos)
	r.hist.Setup.ModSvcPricing = pricing
	r.hist.Setup.ModSvcQoS = qos
}

func (r *Run) SetHostileHashes(v bool) {
	r.w.hostileHashes = v
	r.hist.Setup.HostileHashes = v
}

func (r *Run) SetRespKillOthers(v bool) {
	r.w.respCbKillOthers = v
	r.hist.Setup.RespKill = v
}

func (r *Run) SetKillOthers(v bool) {
	r.w.stateCbKillOthers = v
	r.hist.Setup.KillOthers = v
}

// InstallGhost: a repeated, paused context of the module "ghostmod" (not wired in this
// application), consumer = the given 20-byte account, on an existing or future service.
func (r *Run) InstallGhost(consumer sdk.AccAddress, provider sdk.AccAddress) string {
	id := append(sha256Sum("ghost-context"), make([]byte, 8)...)
	rc := types.RequestContext{ServiceName: "sv", Providers: []sdk.AccAddress{provider}, Consumer: consumer, Input: goodInput,
		ServiceFeeCap: coins(10), ModuleName: "ghostmod", Timeout: 2, Repeated: true, RepeatedFrequency: 2, RepeatedTotal: 3,
		BatchState: types.BATCHCOMPLETED, State: types.PAUSED, ResponseThreshold: 1, BatchResponseThreshold: 1}
	r.w.InstallGhostContext(id, rc)
	r.hist.Setup.Ghost = true
	return hexs(id)
}

// SetStartTime sets the block time of the first block (default: genesisTime).
func (r *Run) SetStartTime(t time.Time) {
	r.w.now = t
	r.hist.Setup.StartTimeNs = t.UnixNano()
}

func (r *Run) SetViaApp(v bool) {
	r.w.viaApp = v
	r.hist.Setup.ViaApp = v
}

func (r *Run) SetStateCbKill(v bool) {
	r.w.stateCbKill = v
	r.hist.Setup.StateCbKill = v
}

// Begin takes the initial snapshot; call after funding.
func (r *Run) Begin() {
	r.w.BeginFirstBlock()
	r.pre = r.w.TakeSnap()
	r.mon.begin(r)
}

func (r *Run) after(st Step, msg sdk.Msg, res StepResult) {
	r.hist.Steps = append(r.hist.Steps, st)
	post := r.w.TakeSnap()
	sc := &StepCtx{Idx: len(r.hist.Steps) - 1, Step: &r.hist.Steps[len(r.hist.Steps)-1], Msg: msg, Res: &res, Pre: r.pre, Post: post, run: r}
	r.mon.check(sc)
	r.pre = post
	r.digests = append(r.digests, post.Digest)
	if r.w.commit && st.Kind == "block" {
		// between two blocks, outside the monitors' brackets: Commit, then the next block's
		// BeginBlock (other modules mint and distribute there), then a fresh "pre" snapshot
		hash := r.w.CommitAndBegin()
		r.digests[len(r.digests)-1] += ":" + hash
		r.pre = r.w.TakeSnap()
		r.mon.stats.Hits["C20/app-hash-formed"]++
		r.mon.stats.Hits["C20/node-restarts"] = r.mon.stats.Hits["C20/node-restarts"] - r.nodeRestartsSeen + r.w.nodeRestarts
		r.nodeRestartsSeen = r.w.nodeRestarts
		// the committed block is now what a node serves: let the repository's client code find
		// the requests of this block again from their IDs
		checkClientRecovery(r.mon, sc)
		// ... and, every third block, ask every query through the application's ABCI Query endpoint
		if r.mon.c17 != nil && len(r.w.appHashes)%3 == 0 {
			r.mon.c17.sampleVia(&StepCtx{Idx: sc.Idx, Step: sc.Step, Res: &StepResult{OK: true}, Pre: r.pre, Post: r.pre, run: r}, true)
		}
	}
	r.lastRes = res
	if len(r.hist.Steps) >= r.maxSteps {
		r.stop = true
	}
}

func (r *Run) Msg(msg sdk.Msg, note string) StepResult { return r.MsgTx(msg, note, false) }

// watchdogFired is set by the wall-clock watchdog of a run: histories stop executing
// steps (the steps become no-ops) so that what was observed so far can still be reported.
var watchdogFired int32

func expired() bool { return atomic.LoadInt32(&watchdogFired) != 0 }

func (r *Run) MsgTx(msg sdk.Msg, note string, sameTx bool) StepResult {
	if expired() {
		r.stop = true
		return StepResult{}
	}
	typ, b64 := encodeMsg(msg)
	return r.msgBytes(typ, b64, note, sameTx)
}

// msgBytes delivers a message the way a chain does: decoded from its wire form (so that
// what the handler sees is what the protobuf decoder produces, e.g. an explicitly encoded
// zero-length bytes field arrives as an empty, non-nil slice).
func (r *Run) msgBytes(typ, b64, note string, sameTx bool) StepResult {
	if expired() {
		r.stop = true
		return StepResult{}
	}
	msg := decodeMsg(typ, b64)
	if r.simEvery > 0 && !sameTx && len(r.hist.Steps)%r.simEvery == r.simEvery-1 {
		// the sender's wallet first asks a node to simulate the transaction (gas estimation)
		r.simBytes(typ, b64)
	}
	st := Step{Kind: "msg", MsgType: typ, MsgB64: b64, Desc: describeMsg(msg), Note: note, SameTx: sameTx}
	res := r.w.DeliverMsgTx(msg, sameTx)
	r.after(st, msg, res)
	return res
}

// simBytes: a simulate (dry-run) step. A replica of the replay differential plays a node that
// was never asked to simulate: it skips the execution (the digest list stays aligned).
func (r *Run) simBytes(typ, b64 string) {
	msg := decodeMsg(typ, b64)
	st := Step{Kind: "sim", MsgType: typ, MsgB64: b64, Desc: "simulate: " + describeMsg(msg)}
	if r.w.a.noNodeRestart {
		r.hist.Steps = append(r.hist.Steps, st)
		r.digests = append(r.digests, r.pre.Digest)
		return
	}
	var res StepResult
	if err := msg.ValidateBasic(); err != nil {
		res.Rejected, res.Err = true, err.Error()
	} else {
		res = r.w.SimulateMsg(msg)
	}
	r.mon.stats.Hits["C20/simulated-before-delivery"]++
	r.after(st, nil, res)
}

// MsgRaw delivers hand-encoded wire bytes of a message type.
func (r *Run) MsgRaw(typ string, raw []byte, note string) StepResult {
	return r.msgBytes(typ, base64.StdEncoding.EncodeToString(raw), note, false)
}

// Send is an ordinary bank transfer, routed through the bank module's message handler
// (which refuses blocked recipients such as module accounts).
func (r *Run) Send(from, to sdk.AccAddress, amt int64, note string) StepResult {
	if expired() {
		r.stop = true
		return StepResult{}
	}
	st := Step{Kind: "send", From: hexs(from), To: hexs(to), Amount: amt, Note: note, Desc: fmt.Sprintf("bank-send %.8s -> %.8s %d%s", hexs(from), hexs(to), amt, denom)}
	res := r.w.BankSend(from, to, amt)
	r.after(st, nil, res)
	return res
}

func (r *Run) Block(dt time.Duration) StepResult {
	if expired() {
		r.stop = true
		return StepResult{}
	}
	st := Step{Kind: "block", DtNs: int64(dt), Desc: fmt.Sprintf("end-block h=%d then +%s", r.w.height, dt)}
	res := r.w.EndBlock(dt)
	r.after(st, nil, res)
	return res
}

func (r *Run) Blocks(n int) {
	for i := 0; i < n; i++ {
		r.Block(5 * time.Second)
	}
}

func (r *Run) Mod(op ModOp, note string) StepResult {
	if expired() {
		r.stop = true
		return StepResult{}
	}
	st := Step{Kind: "mod", Mod: &op, Note: note, Desc: fmt.Sprintf("module-op %s ctx=%.16s", op.Op, op.CtxID)}
	res := r.w.DeliverModOp(op)
	r.after(st, nil, res)
	return res
}

// Restart: every other restart (decided by the position in the history, not by a PRNG draw)
// imports the exported genesis re-written the way a migration script or a hand-edited host
// genesis may have it.
func (r *Run) Restart() StepResult { return r.RestartOpt(len(r.hist.Steps)%2 == 0) }

// RestartOpt: every restart whose position is 1 or 2 modulo 4 also starts the new chain at
// height 1 again, as a zero-height restart normally does (batch counters carry over, heights
// do not); in commit mode the chain of the history goes on at its own height.
func (r *Run) RestartOpt(rewrite bool) StepResult {
	return r.restartFull(rewrite, !r.w.commit && (len(r.hist.Steps)%4 == 1 || len(r.hist.Steps)%4 == 2))
}

func (r *Run) restartFull(rewrite, newChain bool) StepResult {
	if expired() {
		r.stop = true
		return StepResult{}
	}
	newChain = newChain && !r.w.commit
	st := Step{Kind: "restart", Rewrite: rewrite, NewChain: newChain, Desc: "zero-height restart: prepare, export, wipe the module store, import"}
	if newChain {
		st.Desc += " (the new chain starts at height 1)"
	}
	if rewrite {
		st.Desc += " (genesis re-written: lists reversed, disabled time of available bindings = Unix epoch)"
	}
	res := r.w.Restart(rewrite)
	if newChain && res.OK && !r.w.commit {
		r.w.height = 1
	}
	r.after(st, nil, res)
	return res
}

func (r *Run) ChangeParams(p types.Params) StepResult {
	if expired() {
		r.stop = true
		return StepResult{}
	}
	pb, err := p.Marshal()
	must(err)
	st := Step{Kind: "params", ParamsB64: base64.StdEncoding.EncodeToString(pb), Desc: "parameter change: " + paramsDesc(p)}
	res := r.w.ChangeParams(p)
	r.after(st, nil, res)
	return res
}

// Probe runs the sampled scenario monitors (genesis scenario, query differential) on the
// current state, wherever the sampling period would have put them. It is not a step: it
// works on throw-away branches and leaves the history as it is.
func (r *Run) Probe() {
	if expired() || len(r.hist.Steps) == 0 {
		return
	}
	sc := &StepCtx{Idx: len(r.hist.Steps) - 1, Step: &r.hist.Steps[len(r.hist.Steps)-1], Res: &StepResult{OK: true}, Pre: r.pre, Post: r.pre, run: r}
	if r.mon.c19 != nil {
		r.mon.c19.scenario(sc)
	}
	if r.mon.c17 != nil {
		r.mon.c17.sample(sc)
	}
}

func (r *Run) SetModSvcBehaviour(b ModSvcBehaviour) {
	r.w.modSvcBehaviour = b
	r.hist.Steps = append(r.hist.Steps, Step{Kind: "modsvc", Behaviour: int(b), Desc: fmt.Sprintf("module service answers in mode %d", b)})
	r.digests = append(r.digests, r.pre.Digest)
}

// Finish runs the end-of-history checks.
func (r *Run) Finish() {
	r.mon.finish(r)
	r.w.a.cur = nil
}

// Replay re-executes a recorded history against the current code.
func Replay(a *App, h *History, mon *Mon) *Run {
	pb, err := base64.StdEncoding.DecodeString(h.Setup.ParamsB64)
	must(err)
	var params types.Params
	must(params.Unmarshal(pb))
	start := h.Setup.StartHeight
	if start == 0 {
		start = startHeight
	}
	r := NewRunOpt(a, h.Name, h.Seed, params, mon, start, h.Setup.Commit)
	r.simEvery = 0 // the recorded history names its simulate steps itself
	for _, f := range h.Setup.Funds {
		var amt int64
		fmt.Sscan(f.Amount, &amt)
		if f.NoAccount {
			r.TrackOnly(f.Name, unhex(f.Addr))
		} else {
			r.Fund(f.Name, unhex(f.Addr), amt)
		}
	}
	for _, f := range h.Setup.BigFunds {
		amt, _ := sdk.NewIntFromString(f.Amount)
		r.w.Fund(f.Name, unhex(f.Addr), amt)
		r.hist.Setup.BigFunds = append(r.hist.Setup.BigFunds, f)
	}
	if h.Setup.ModSvcPricing != "" {
		q := h.Setup.ModSvcQoS
		if q == 0 {
			q = 1
		}
		r.InstallModuleServiceQoS(h.Setup.ModSvcPricing, q)
	}
	r.SetStateCbKill(h.Setup.StateCbKill)
	r.SetViaApp(h.Setup.ViaApp)
	r.SetKillOthers(h.Setup.KillOthers)
	r.SetRespKillOthers(h.Setup.RespKill)
	r.SetHostileHashes(h.Setup.HostileHashes)
	if h.Setup.StartTimeNs != 0 {
		r.SetStartTime(time.Unix(0, h.Setup.StartTimeNs).UTC())
	}
	if h.Setup.Ghost {
		act := MakeActors()
		r.InstallGhost(act.Consumers[0], act.SignProv[0])
	}
	r.Begin()
	for _, st := range h.Steps {
		switch st.Kind {
		case "msg":
			r.msgBytes(st.MsgType, st.MsgB64, st.Note, st.SameTx)
		case "sim":
			r.simBytes(st.MsgType, st.MsgB64)
		case "send":
			r.Send(unhex(st.From), unhex(st.To), st.Amount, st.Note)
		case "block":
			r.Block(time.Duration(st.DtNs))
		case "mod":
			r.Mod(*st.Mod, st.Note)
		case "modsvc":
			r.SetModSvcBehaviour(ModSvcBehaviour(st.Behaviour))
		case "restart":
			r.restartFull(st.Rewrite, st.NewChain)
		case "params":
			pb, err := base64.StdEncoding.DecodeString(st.ParamsB64)
			must(err)
			var np types.Params
			must(np.Unmarshal(pb))
			r.ChangeParams(np)
		}
	}
	r.Finish()
	return r
}

func mustJSON(v interface{}) []byte {
	b, err := json.MarshalIndent(v, "", " ")
	must(err)
	return b
}
