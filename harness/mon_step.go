package main

// Step oracles: the expected effect of a step is recomputed from the pre-snapshot by
// small independent references and compared with what was observed.

import (
	"bytes"
	"fmt"
	"math/big"
	"sort"
	"strings"

	sdk "github.com/cosmos/cosmos-sdk/types"

	"github.com/irismod/service/types"
)

func (m *Mon) checkStep(sc *StepCtx) {
	si := sc.info()
	if sc.IsRestart() {
		m.stepRestart(sc, si)
		return
	}
	m.stepC02(sc, si)
	m.stepC03C04(sc, si)
	m.stepC05(sc, si)
	m.stepC06C07(sc, si)
	m.stepC08(sc, si)
	m.stepC09(sc, si)
	m.stepC10(sc, si)
	m.stepC12(sc, si)
	m.stepC13(sc, si)
	m.stepC14(sc, si)
	m.stepC15(sc, si)
	m.stepC16(sc, si)
	m.stepC18(sc)
	m.stepC20(sc, si)
}

func eqInt(a *big.Int, b *big.Int) bool { return a.Cmp(b) == 0 }

// abandonedAtRestart: a context that has no batch left to issue when the chain restarts.
func abandonedAtRestart(rc types.RequestContext) bool {
	return rc.State == types.COMPLETED || (!rc.Repeated && rc.BatchCounter >= 1) ||
		(rc.Repeated && rc.RepeatedTotal > 0 && int64(rc.BatchCounter) >= rc.RepeatedTotal)
}

// createdByModule: the module that created the context, as the harness saw it at creation -
// the stored field is what is being checked, so it cannot be the only witness (a zero-height
// restart that drops it would otherwise hand the context to its consumer).
func (m *Mon) createdByModule(id string) string {
	if t := m.ctxs[id]; t != nil {
		return t.Module
	}
	return ""
}

func taxOf(fee sdk.Int, p types.Params) *big.Int {
	return floorMul(fee.BigInt(), decRat(p.ServiceFeeTax))
}

// ---------------------------------------------------------------------------
// C02

func (m *Mon) stepC02(sc *StepCtx, si stepInfo) {
	m.eval("C02")
	pre, post := sc.Pre, sc.Post
	w := sc.run.w
	esc, fc := w.addrOf("escrow"), w.addrOf("feecollector")
	dEsc, dFc := delta(pre, post, esc), delta(pre, post, fc)
	dEarn := new(big.Int).Sub(bi(post.sumEarned()), bi(pre.sumEarned()))
	newReqs := newRequests(sc)
	cls := stepClass(sc)

	if len(newReqs) > 0 && !sc.IsBlock() && si.modSvcCall == nil {
		m.fail(sc, "C02", "R1-issue-only-at-batch-start", cls, "requests appear in a step that is neither end-of-block nor a module-service call (%s)", sc.Step.Desc)
	}

	switch {
	case sc.IsBlock():
		be := sc.block()
		for _, id := range be.Expiring {
			m.hit("C02", "R4-expiry", fmt.Sprintf("super%v/fee%s", m.reqs[id] != nil && m.reqs[id].Super, sgn(coinsAmt(pre.Requests[id].ServiceFee))))
			if post.ActiveID[id] {
				m.fail(sc, "C02", "R4-expiry", "still-pending", "request %.24s.. still pending after its expiry block %d", id, be.H)
			}
		}
		for id := range pre.ActiveID {
			r := pre.Requests[id]
			if r.ExpirationHeight > be.H {
				pr, ok := post.Requests[id]
				if !post.ActiveID[id] || !ok || !sameProto(&pr, &r) {
					m.fail(sc, "C02", "R4-unexpired-untouched", "", "request %.24s.. (expiry %d) touched by end-of-block %d", id, r.ExpirationHeight, be.H)
				}
			}
		}
		fees := map[string]*big.Int{}
		total := new(big.Int)
		for _, ids := range newReqs {
			for _, id := range ids {
				r := post.Requests[id]
				rc, ok := pre.Contexts[hexs(r.RequestContextId)]
				if !ok {
					continue
				}
				c := hexs(rc.Consumer)
				if fees[c] == nil {
					fees[c] = new(big.Int)
				}
				fees[c].Add(fees[c], bi(coinsAmt(r.ServiceFee)))
				total.Add(total, bi(coinsAmt(r.ServiceFee)))
			}
		}
		totalRefund := new(big.Int)
		cons := map[string]bool{}
		for c := range fees {
			cons[c] = true
		}
		for c, v := range be.Refunds {
			cons[c] = true
			totalRefund.Add(totalRefund, v)
		}
		for c := range cons {
			want := new(big.Int)
			if v := be.Refunds[c]; v != nil {
				want.Add(want, v)
			}
			if v := fees[c]; v != nil {
				want.Sub(want, v)
			}
			if _, tracked := post.Bal[c]; !tracked {
				continue
			}
			got := delta(pre, post, c)
			m.hit("C02", "R1-consumer-delta", fmt.Sprintf("refund%v/charge%v", be.Refunds[c] != nil && be.Refunds[c].Sign() > 0, fees[c] != nil && fees[c].Sign() > 0))
			if !eqInt(got, want) {
				m.fail(sc, "C02", "R1-consumer-delta", cmpClass(got, want), "end-of-block %d: consumer %.8s balance moved by %s, expected refunds %v - new fees %v = %s", be.H, c, got, be.Refunds[c], fees[c], want)
			}
		}
		// C06 face of the same equation: a batch that creates no requests (skipped, paused,
		// postponed, whatever) costs nothing, and a batch that does costs what its requests record
		for a := range post.Bal {
			n := sc.run.w.tracked[a]
			if n == "escrow" || n == "deposits" || n == "feecollector" {
				continue
			}
			want := new(big.Int)
			if v := be.Refunds[a]; v != nil {
				want.Add(want, v)
			}
			if v := fees[a]; v != nil {
				want.Sub(want, v)
			}
			got := delta(pre, post, a)
			m.hit("C06", "charge-matches-issued", fmt.Sprintf("issued%v", fees[a] != nil && fees[a].Sign() > 0))
			m.hit("C07", "charged-equals-recorded-fees", fmt.Sprintf("issued%v", fees[a] != nil && fees[a].Sign() > 0))
			if got.Cmp(want) < 0 {
				kind := "more-than-issued"
				if fees[a] == nil || fees[a].Sign() == 0 {
					kind = "no-requests"
				}
				// C07 ("the fee charged follows the published pricing"): what is taken from the consumer
				// at batch start is the sum of the fees its requests record, nothing on top
				m.fail(sc, "C07", "charged-equals-recorded-fees", kind, "end-of-block %d: account %.8s was charged %s more than the fees recorded on the requests created for it", be.H, a, new(big.Int).Sub(want, got))
				m.fail(sc, "C06", "charge-matches-issued", kind, "end-of-block %d: account %.8s was charged %s more than the fees of the requests created for it (balance moved by %s, refunds %v, fees of new requests %v)", be.H, a, new(big.Int).Sub(want, got), got, be.Refunds[a], fees[a])
			}
		}
		wantEsc := new(big.Int).Sub(total, totalRefund)
		if !eqInt(dEsc, wantEsc) {
			m.fail(sc, "C02", "R1-escrow-delta", cmpClass(dEsc, wantEsc), "end-of-block %d: escrow moved by %s, expected new fees %s - refunds %s", be.H, dEsc, total, totalRefund)
		}
		if dFc.Sign() != 0 || dEarn.Sign() != 0 {
			m.fail(sc, "C02", "R5-no-other-movement", "block", "end-of-block moved fee collector by %s / earnings by %s", dFc, dEarn)
		}
	case si.respond != nil:
		r := si.respReq
		fee := coinsAmt(r.ServiceFee)
		cons := hexs(si.respCtx.Consumer)
		prov := hexs(r.Provider)
		dCons := delta(pre, post, cons)
		dProvEarn := new(big.Int).Sub(bi(post.earned(prov)), bi(pre.earned(prov)))
		rid := hexs(si.respond.RequestId)
		if si.respGood {
			tax := taxOf(fee, pre.Params)
			net := new(big.Int).Sub(fee.BigInt(), tax)
			m.hit("C02", "R2-good-response", fmt.Sprintf("fee%s/tax%s/out%v", sgn(fee), sgn(sdk.NewIntFromBigInt(tax)), len(si.respond.Output) > 0))
			if !eqInt(dEsc, new(big.Int).Neg(tax)) || !eqInt(dFc, tax) || !eqInt(dProvEarn, net) || !eqInt(dEarn, net) || (cons != prov && dCons.Sign() != 0) {
				m.fail(sc, "C02", "R2-good-response", "split", "response to request with fee %s at tax %s: escrow %s (want -%s), fee collector %s (want %s), provider earnings %s (want %s), all earnings %s, consumer %s (want 0)", fee, pre.Params.ServiceFeeTax, dEsc, tax, dFc, tax, dProvEarn, net, dEarn, dCons)
			}
		} else {
			m.hit("C02", "R3-malformed-output", fmt.Sprintf("fee%s", sgn(fee)))
			if !eqInt(dCons, fee.BigInt()) || !eqInt(dEsc, new(big.Int).Neg(fee.BigInt())) || dFc.Sign() != 0 || dEarn.Sign() != 0 {
				m.fail(sc, "C02", "R3-malformed-output", "refund", "malformed response to request with fee %s: consumer %s (want +%s), escrow %s (want -%s), fee collector %s, earnings %s (want 0)", fee, dCons, fee, dEsc, fee, dFc, dEarn)
			}
		}
		if post.ActiveID[rid] {
			m.fail(sc, "C02", "R2-good-response", "still-pending", "request still pending after accepted response")
		}
	case si.modSvcCall != nil:
		cons := hexs(si.modSvcCall.Consumer)
		dCons := delta(pre, post, cons)
		wantCons, wantEsc, wantFc, wantEarn := new(big.Int), new(big.Int), new(big.Int), new(big.Int)
		for _, ids := range newReqs {
			for _, id := range ids {
				fee := coinsAmt(post.Requests[id].ServiceFee)
				le := m.reqs[id]
				if le != nil && le.Status == "paid" {
					tax := taxOf(fee, pre.Params)
					wantCons.Sub(wantCons, fee.BigInt())
					wantEsc.Add(wantEsc, new(big.Int).Sub(fee.BigInt(), tax))
					wantFc.Add(wantFc, tax)
					wantEarn.Add(wantEarn, new(big.Int).Sub(fee.BigInt(), tax))
					m.hit("C02", "R2-module-service", "paid/fee"+sgn(fee))
				} else {
					m.hit("C02", "R3-module-service", "refunded/fee"+sgn(fee))
				}
			}
		}
		if !eqInt(dCons, wantCons) || !eqInt(dEsc, wantEsc) || !eqInt(dFc, wantFc) || !eqInt(dEarn, wantEarn) {
			m.fail(sc, "C02", "R2-module-service", "split", "module-service call: consumer %s (want %s), escrow %s (want %s), fee collector %s (want %s), earnings %s (want %s)", dCons, wantCons, dEsc, wantEsc, dFc, wantFc, dEarn, wantEarn)
		}
	case si.withdraw != nil:
		paid := new(big.Int).Neg(dEarn)
		m.hit("C02", "R5-withdraw", "paid"+sgn(sdk.NewIntFromBigInt(paid)))
		// (an owner may have named the fee collector's address as its wallet)
		wallet := hexs(si.withdraw.Owner)
		if a, ok := pre.Withdraw[wallet]; ok {
			wallet = a
		}
		wantFc := new(big.Int)
		if wallet == fc {
			wantFc = paid
		}
		if !eqInt(dEsc, dEarn) || !eqInt(dFc, wantFc) {
			m.fail(sc, "C02", "R5-withdraw", "", "withdrawal: escrow moved by %s but earnings by %s (fee collector %s)", dEsc, dEarn, dFc)
		}
		m.samePending(sc, cls)
	default:
		if sc.Idx >= 0 {
			m.hit("C02", "R5-no-other-movement", cls+okStr(sc.Res))
			if dEsc.Sign() != 0 || dEarn.Sign() != 0 || dFc.Sign() != 0 {
				m.fail(sc, "C02", "R5-no-other-movement", cls, "%s moved escrow by %s, earnings by %s, fee collector by %s", sc.Step.Desc, dEsc, dEarn, dFc)
			}
			m.samePending(sc, cls)
		}
	}
	// conservation: money can only move between tracked accounts or be burned
	sumPre, sumPost := new(big.Int), new(big.Int)
	for a, v := range pre.Bal {
		sumPre.Add(sumPre, v.BigInt())
		sumPost.Add(sumPost, post.Bal[a].BigInt())
	}
	dSum := new(big.Int).Sub(sumPost, sumPre)
	dSup := new(big.Int).Sub(bi(post.Supply), bi(pre.Supply))
	if !eqInt(dSum, dSup) && len(pre.Bal) == len(post.Bal) {
		m.fail(sc, "C02", "R5-no-other-movement", "untracked-account@"+cls, "%s: observed accounts changed by %s in total but supply by %s: coins went to or came from an account nobody named", sc.Step.Desc, dSum, dSup)
	}
}

func cmpClass(got, want *big.Int) string {
	if got.Cmp(want) < 0 {
		return "less"
	}
	return "more"
}

func (m *Mon) samePending(sc *StepCtx, cls string) {
	if len(sc.Pre.ActiveID) != len(sc.Post.ActiveID) {
		m.fail(sc, "C02", "R5-no-other-movement", "pending-set@"+cls, "%s changed the set of pending requests", sc.Step.Desc)
		return
	}
	for id := range sc.Pre.ActiveID {
		if !sc.Post.ActiveID[id] {
			m.fail(sc, "C02", "R5-no-other-movement", "pending-set@"+cls, "%s changed the set of pending requests", sc.Step.Desc)
			return
		}
	}
}

// ---------------------------------------------------------------------------
// C03 (step part) and C04

func (m *Mon) stepC03C04(sc *StepCtx, si stepInfo) {
	if sc.Idx < 0 {
		return
	}
	m.eval("C04")
	pre, post := sc.Pre, sc.Post
	cls := stepClass(sc)
	// failures of this step per binding
	fail := map[string]int{}
	nFail := 0
	var expBind map[string]*ExpBinding
	if sc.IsBlock() {
		be := sc.block()
		expBind = be.Bindings
		nFail = len(be.Failures)
		for bk, eb := range be.Bindings {
			if eb.Failures > 0 {
				fail[bk] = eb.Failures
			}
		}
	} else if si.respond != nil && !si.respGood {
		fail[bkey(si.respCtx.ServiceName, si.respReq.Provider)] = 1
		nFail = 1
	} else if si.modSvcCall != nil {
		for _, ids := range newRequests(sc) {
			for _, id := range ids {
				if le := m.reqs[id]; le != nil && le.Status == "refunded-bad" {
					fail[bkey(modSvcName, post.Requests[id].Provider)]++
					nFail++
				}
			}
		}
	}
	frac := decRat(pre.Params.SlashFraction)
	burned := new(big.Int)
	for bk, n := range fail {
		b, ok := pre.Bindings[bk]
		if !ok {
			m.fail(sc, "C04", "slash-target", "no-binding", "failed request addressed to a provider without binding %q", bk)
			continue
		}
		var eb *ExpBinding
		if expBind != nil {
			eb = expBind[bk]
		} else {
			eb = &ExpBinding{Available: b.Available, Failures: n}
			eb.Deposit, eb.Burned = SlashN(bi(coinsAmt(b.Deposit)), frac, n)
			if b.Available {
				if op, err := ParsePricingText(b.Pricing); err == nil && eb.Deposit.Cmp(MinDeposit(pre.Params, op)) < 0 {
					eb.Available = false
					eb.TurnedOff = true
				}
			}
		}
		burned.Add(burned, eb.Burned)
		pb := post.Bindings[bk]
		sit := fmt.Sprintf("n%d/avail%v/off%v/dep%s/burn%s/%s", minInt(n, 3), b.Available, eb.TurnedOff, sgn(coinsAmt(b.Deposit)), sgn(sdk.NewIntFromBigInt(eb.Burned)), fracClass(pre.Params.SlashFraction))
		m.hit("C04", "slash-amount", sit+"/"+cls)
		if n > 1 {
			m.hit("C04", "multi-slash", "")
		}
		if eb.TurnedOff {
			m.hit("C04", "auto-disable", "")
		}
		if !eqInt(bi(coinsAmt(pb.Deposit)), eb.Deposit) {
			m.fail(sc, "C04", "slash-amount", cmpClass(bi(coinsAmt(pb.Deposit)), eb.Deposit)+"@"+cls, "binding (%s,%.8s) failed %d request(s): deposit %s -> %s, expected %s (fraction %s)", b.ServiceName, hexs(b.Provider), n, coinsAmt(b.Deposit), coinsAmt(pb.Deposit), eb.Deposit, pre.Params.SlashFraction)
		}
		if pb.Available != eb.Available {
			m.fail(sc, "C04", "auto-disable", fmt.Sprintf("avail%v@%s", pb.Available, cls), "binding (%s,%.8s) after %d slash(es): deposit %s, available=%v, expected available=%v", b.ServiceName, hexs(b.Provider), n, coinsAmt(pb.Deposit), pb.Available, eb.Available)
		}
		if eb.TurnedOff && pb.Available == false && !pb.DisabledTime.Equal(pre.Time) {
			m.fail(sc, "C04", "disabled-time", cls, "binding auto-disabled at block time %s but disabled time recorded as %s", pre.Time, pb.DisabledTime)
		}
		if !b.Available && !pb.DisabledTime.Equal(b.DisabledTime) {
			m.fail(sc, "C04", "disabled-time", "changed@"+cls, "slash of an already unavailable binding changed its disabled time")
		}
	}
	// slash events
	nEv := 0
	for _, e := range sc.Res.Events {
		if e.Type == types.EventTypeServiceSlash {
			nEv++
		}
	}
	if sc.Res.OK && (nFail > 0 || nEv > 0) {
		m.hit("C04", "slash-events", fmt.Sprintf("n%d", minInt(nFail, 4)))
		if nEv != nFail {
			// the statement does not speak of events: a mismatch is counted, the deposits,
			// burns and availability above are what is judged
			m.hit("C04", "slash-events-differ(not judged)", "")
		}
	}
	dSup := new(big.Int).Sub(bi(post.Supply), bi(pre.Supply))
	if !eqInt(dSup, new(big.Int).Neg(burned)) {
		m.fail(sc, "C04", "burn", cmpClass(dSup, new(big.Int).Neg(burned))+"@"+cls, "%s: supply moved by %s, slashes of this step amount to %s", sc.Step.Desc, dSup, burned)
		m.fail(sc, "C03", "S1-supply", cls, "%s: supply moved by %s, slashes of this step amount to %s", sc.Step.Desc, dSup, burned)
	}

	// ---- C03 S1: every deposit change is explained ----
	m.eval("C03")
	for bk, pb := range post.Bindings {
		b, had := pre.Bindings[bk]
		dNew := bi(coinsAmt(pb.Deposit))
		if !had {
			bm, ok := sc.Msg.(*types.MsgBindService)
			if !ok || !sc.Res.OK || bkey(bm.ServiceName, bm.Provider) != bk {
				m.fail(sc, "C03", "S1-deposit-change", "binding-appears@"+cls, "binding %q appears without an accepted bind message", bk)
				continue
			}
			want := bi(coinsAmt(bm.Deposit))
			dOwner := delta(pre, post, hexs(bm.Owner))
			m.hit("C03", "S1-bind", "dep"+sgn(coinsAmt(bm.Deposit)))
			if !eqInt(dNew, want) || !eqInt(dOwner, new(big.Int).Neg(want)) {
				m.fail(sc, "C03", "S1-deposit-change", "bind-amount", "bind with deposit %s: recorded %s, owner balance moved by %s", want, dNew, dOwner)
			}
			continue
		}
		dOld := bi(coinsAmt(b.Deposit))
		switch c := dNew.Cmp(dOld); {
		case c > 0:
			var add sdk.Coins
			var signer sdk.AccAddress
			okMsg := false
			switch mm := sc.Msg.(type) {
			case *types.MsgUpdateServiceBinding:
				add, signer, okMsg = mm.Deposit, mm.Owner, bkey(mm.ServiceName, mm.Provider) == bk
			case *types.MsgEnableServiceBinding:
				add, signer, okMsg = mm.Deposit, mm.Owner, bkey(mm.ServiceName, mm.Provider) == bk
			}
			inc := new(big.Int).Sub(dNew, dOld)
			if !okMsg || !sc.Res.OK {
				m.fail(sc, "C03", "S1-deposit-change", "grows@"+cls, "deposit of %q grew by %s without an accepted update/enable carrying a deposit", bk, inc)
				break
			}
			dS := delta(pre, post, hexs(signer))
			m.hit("C03", "S1-top-up", cls)
			if !eqInt(inc, bi(coinsAmt(add))) || !eqInt(dS, new(big.Int).Neg(inc)) {
				m.fail(sc, "C03", "S1-deposit-change", "top-up-amount", "%s: deposit grew by %s, message carries %s, signer balance moved by %s", sc.Step.Desc, inc, add, dS)
			}
		case c < 0:
			if rm, ok := sc.Msg.(*types.MsgRefundServiceDeposit); ok && sc.Res.OK && bkey(rm.ServiceName, rm.Provider) == bk {
				dOwner := delta(pre, post, hexs(b.Owner))
				if dNew.Sign() != 0 || !eqInt(dOwner, dOld) {
					m.fail(sc, "C03", "S1-deposit-change", "refund-amount", "refund of deposit %s: %s left on the binding, owner balance moved by %s", dOld, dNew, dOwner)
				}
			} else if fail[bk] == 0 {
				m.fail(sc, "C03", "S1-deposit-change", "shrinks@"+cls, "deposit of %q shrank %s -> %s with no refund and no failed request (%s)", bk, dOld, dNew, sc.Step.Desc)
				m.fail(sc, "C04", "no-failure-no-slash", cls, "deposit of %q shrank %s -> %s although none of its requests failed in %s", bk, dOld, dNew, sc.Step.Desc)
			}
		}
		if fail[bk] == 0 && (sc.IsBlock() || si.respond != nil) {
			m.hit("C04", "no-failure-no-slash", cls)
			if !sameProto(&pb, &b) {
				// one change is compatible with every statement: a binding that holds less than the
				// minimum for its price (C14) may be taken out of service whenever that is noticed
				under := false
				if op, err := ParsePricingText(b.Pricing); err == nil {
					under = bi(coinsAmt(b.Deposit)).Cmp(MinDeposit(pre.Params, op)) < 0
				}
				nb := pb
				nb.Available, nb.DisabledTime = b.Available, b.DisabledTime
				onlyDisabled := b.Available && !pb.Available && sameProto(&nb, &b)
				if !(under && onlyDisabled) {
					m.fail(sc, "C04", "no-failure-no-slash", "record@"+cls, "binding %q changed in %s although none of its requests failed", bk, sc.Step.Desc)
				}
			}
		}
	}
	// ---- C03 S2: refund preconditions ----
	if rm, ok := sc.Msg.(*types.MsgRefundServiceDeposit); ok {
		b, had := pre.Bindings[bkey(rm.ServiceName, rm.Provider)]
		if had {
			// the wait counts from the moment the harness saw the binding turn unavailable
			// (the stored disabled time is what the module itself goes by)
			since := b.DisabledTime
			if t, ok := m.disabledAt[bkey(rm.ServiceName, rm.Provider)]; ok && !b.Available {
				m.hit("C03", "refund-wait-from-observed-disabling", fmt.Sprintf("same%v", t.Equal(since)))
				since = t
			}
			deadline := since.Add(pre.Params.ArbitrationTimeLimit).Add(pre.Params.ComplaintRetrospect)
			rel := "after"
			switch {
			case pre.Time.Equal(deadline):
				rel = "exactly-at"
			case pre.Time.Add(1).Equal(deadline):
				rel = "1ns-before"
			case pre.Time.Before(deadline):
				rel = "before"
			case pre.Time.Add(-1).Equal(deadline):
				rel = "1ns-after"
			}
			sit := fmt.Sprintf("ok%v/avail%v/dep%s/%s/owner%v", sc.Res.OK, b.Available, sgn(coinsAmt(b.Deposit)), rel, bytes.Equal(b.Owner, rm.Owner))
			m.hit("C03", "S2-refund-preconditions", sit)
			if sc.Res.OK {
				if b.Available || !coinsAmt(b.Deposit).IsPositive() || pre.Time.Before(deadline) || !bytes.Equal(b.Owner, rm.Owner) {
					m.fail(sc, "C03", "S2-refund-preconditions", fmt.Sprintf("avail%v/dep%s/%s", b.Available, sgn(coinsAmt(b.Deposit)), rel), "refund accepted with available=%v deposit=%s block time %s refundable at %s signer-is-owner=%v", b.Available, coinsAmt(b.Deposit), pre.Time, deadline, bytes.Equal(b.Owner, rm.Owner))
				}
				if rel == "exactly-at" {
					m.hit("C03", "refund-accepted-at-deadline", "")
				}
			} else if !b.Available && coinsAmt(b.Deposit).IsPositive() && bytes.Equal(b.Owner, rm.Owner) {
				if rel == "1ns-before" {
					m.hit("C03", "refund-rejected-1ns-early", "")
				}
				if !pre.Time.Before(deadline) && sc.Res.Panic == "" {
					m.hit("C03", "refund-converse-not-judged", rel)
				}
			} else if !b.Available && !coinsAmt(b.Deposit).IsPositive() {
				m.hit("C03", "second-refund-rejected", "")
			}
		}
	}
}

func fracClass(d sdk.Dec) string {
	switch {
	case d.IsZero():
		return "f0"
	case d.Equal(sdk.OneDec()):
		return "f1"
	case d.LT(sdk.NewDecWithPrec(1, 2)):
		return "ftiny"
	}
	return "fmid"
}

// ---------------------------------------------------------------------------
// C05

func (m *Mon) stepC05(sc *StepCtx, si stepInfo) {
	if sc.Idx < 0 {
		return
	}
	m.eval("C05")
	pre, post := sc.Pre, sc.Post
	w := sc.run.w
	moduleAcc := map[string]bool{w.addrOf("escrow"): true, w.addrOf("deposits"): true, w.addrOf("feecollector"): true, w.addrOf("govacc"): true}
	if sc.IsMsg() {
		signers := sc.Msg.GetSigners()
		signer := hexs(signers[0])
		rightful, known := true, true
		why := ""
		switch mm := sc.Msg.(type) {
		case *types.MsgUpdateServiceBinding:
			b, ok := pre.Bindings[bkey(mm.ServiceName, mm.Provider)]
			known, rightful, why = ok, ok && hexs(b.Owner) == signer, "binding owner"
		case *types.MsgDisableServiceBinding:
			b, ok := pre.Bindings[bkey(mm.ServiceName, mm.Provider)]
			known, rightful, why = ok, ok && hexs(b.Owner) == signer, "binding owner"
		case *types.MsgEnableServiceBinding:
			b, ok := pre.Bindings[bkey(mm.ServiceName, mm.Provider)]
			known, rightful, why = ok, ok && hexs(b.Owner) == signer, "binding owner"
		case *types.MsgRefundServiceDeposit:
			b, ok := pre.Bindings[bkey(mm.ServiceName, mm.Provider)]
			known, rightful, why = ok, ok && hexs(b.Owner) == signer, "binding owner"
		case *types.MsgWithdrawEarnedFees:
			if len(mm.Provider) > 0 {
				o, ok := pre.ProvOwner[hexs(mm.Provider)]
				known, rightful, why = ok, ok && o == signer, "provider's owner"
			}
		case *types.MsgPauseRequestContext:
			rc, ok := pre.Contexts[hexs(mm.RequestContextId)]
			known, rightful, why = ok, ok && hexs(rc.Consumer) == signer && rc.ModuleName == "" && m.createdByModule(hexs(mm.RequestContextId)) == "", "context consumer (non-module context, as created)"
		case *types.MsgStartRequestContext:
			rc, ok := pre.Contexts[hexs(mm.RequestContextId)]
			known, rightful, why = ok, ok && hexs(rc.Consumer) == signer && rc.ModuleName == "" && m.createdByModule(hexs(mm.RequestContextId)) == "", "context consumer (non-module context, as created)"
		case *types.MsgKillRequestContext:
			rc, ok := pre.Contexts[hexs(mm.RequestContextId)]
			known, rightful, why = ok, ok && hexs(rc.Consumer) == signer && rc.ModuleName == "" && m.createdByModule(hexs(mm.RequestContextId)) == "", "context consumer (non-module context, as created)"
		case *types.MsgUpdateRequestContext:
			rc, ok := pre.Contexts[hexs(mm.RequestContextId)]
			known, rightful, why = ok, ok && hexs(rc.Consumer) == signer && rc.ModuleName == "" && m.createdByModule(hexs(mm.RequestContextId)) == "", "context consumer (non-module context, as created)"
		case *types.MsgRespondService:
			r, ok := pre.Requests[hexs(mm.RequestId)]
			known, rightful, why = ok, ok && hexs(r.Provider) == signer, "request's provider"
		case *types.MsgBindService:
			o, owned := pre.ProvOwner[hexs(mm.Provider)]
			if !owned {
				// a provider is also spoken for by the owner of any binding that names it
				for _, b := range pre.Bindings {
					if bytes.Equal(b.Provider, mm.Provider) {
						o, owned = hexs(b.Owner), true
						break
					}
				}
			}
			// the service name is reserved by the module double for the life of the keeper
			rightful = (!owned || o == signer) && mm.ServiceName != modSvcName && mm.ServiceName != modSvcName2
			why = "provider unowned or own, service not module-reserved"
		}
		sit := fmt.Sprintf("%s/known%v/rightful%v/%s", sc.Step.MsgType, known, rightful, okStr(sc.Res))
		m.hit("C05", "authority", sit)
		if !rightful && !sc.Res.OK && known {
			m.hit("C05", "wrong-signer-rejected", sc.Step.MsgType)
		}
		if sc.Res.OK && !rightful {
			m.fail(sc, "C05", "authority", sc.Step.MsgType, "%s accepted although the signer %.8s is not the %s", sc.Step.Desc, signer, why)
		}
		// balance decreases
		for a := range post.Bal {
			if moduleAcc[a] || a == signer {
				continue
			}
			if d := delta(pre, post, a); d.Sign() < 0 {
				m.fail(sc, "C05", "debits-only-signer", sc.Step.MsgType, "%s lowered the balance of %s (%.8s) by %s; signer is %.8s", sc.Step.Desc, w.tracked[a], a, d, signer)
			}
		}
		m.hit("C05", "debits-only-signer", sc.Step.MsgType+okStr(sc.Res))
		// set-withdraw-address touches only the signer's record
		if _, ok := sc.Msg.(*types.MsgSetWithdrawAddress); ok && sc.Res.OK {
			for o, a := range post.Withdraw {
				if o != signer && pre.Withdraw[o] != a {
					m.fail(sc, "C05", "withdraw-address-own-record", "", "set-withdraw-address by %.8s changed the record of %.8s", signer, o)
				}
			}
		}
		return
	}
	if sc.IsBlock() {
		charged := map[string]bool{}
		for _, ids := range newRequests(sc) {
			for _, id := range ids {
				if rc, ok := pre.Contexts[hexs(post.Requests[id].RequestContextId)]; ok && rc.State == types.RUNNING && !rc.SuperMode {
					charged[hexs(rc.Consumer)] = true
				}
			}
		}
		m.hit("C05", "block-debits-only-issuing-consumers", fmt.Sprintf("n%d", minInt(len(charged), 3)))
		for a := range post.Bal {
			if moduleAcc[a] {
				continue
			}
			if d := delta(pre, post, a); d.Sign() < 0 && !charged[a] {
				m.fail(sc, "C05", "block-debits-only-issuing-consumers", "", "end-of-block lowered the balance of %s (%.8s) by %s although no running context of it issued a batch", w.tracked[a], a, d)
			}
		}
		return
	}
	if sc.Step.Kind == "send" {
		// an ordinary bank transfer: only the sender pays
		for a := range post.Bal {
			if d := delta(pre, post, a); d.Sign() < 0 && a != sc.Step.From {
				m.fail(sc, "C05", "debits-only-signer", "bank-send", "a bank transfer from %.8s lowered the balance of %s (%.8s) by %s", sc.Step.From, w.tracked[a], a, d)
			}
		}
		return
	}
	if sc.Step.Mod == nil {
		return
	}
	// module operations are not messages: they must not move anybody's coins
	for a := range post.Bal {
		if d := delta(pre, post, a); d.Sign() != 0 {
			m.fail(sc, "C05", "module-op-moves-no-coins", sc.Step.Mod.Op, "module operation %s changed the balance of %s by %s", sc.Step.Mod.Op, w.tracked[a], d)
		}
	}
}

// ---------------------------------------------------------------------------
// C06 / C07

func (m *Mon) stepC06C07(sc *StepCtx, si stepInfo) {
	if sc.Idx < 0 {
		return
	}
	pre, post := sc.Pre, sc.Post
	newReqs := newRequests(sc)
	cls := stepClass(sc)
	m.eval("C07")

	// C07: fee of every new request
	for _, ids := range newReqs {
		for _, id := range ids {
			r := post.Requests[id]
			rc, ok := pre.Contexts[hexs(r.RequestContextId)]
			if !ok {
				rc, ok = post.Contexts[hexs(r.RequestContextId)]
			}
			if !ok {
				continue
			}
			fee := bi(coinsAmt(r.ServiceFee))
			if rc.SuperMode {
				m.hit("C07", "super-mode-free", "")
				if fee.Sign() != 0 {
					m.fail(sc, "C07", "super-mode-free", "", "super-mode request carries fee %s", fee)
				}
				continue
			}
			b, ok := pre.Bindings[bkey(rc.ServiceName, r.Provider)]
			if !ok {
				m.fail(sc, "C06", "eligible-set", "no-binding@"+cls, "request issued to provider %.8s which has no binding for %s", hexs(r.Provider), rc.ServiceName)
				continue
			}
			op, err := ParsePricingText(b.Pricing)
			if err != nil {
				continue
			}
			vol := pre.Volumes[rc.Consumer.String()+"\x00"+rc.ServiceName+"\x00"+r.Provider.String()]
			lo, hi, label := op.PriceRange(pre.Time, vol)
			m.hit("C07", "fee-follows-pricing", label+fmt.Sprintf("/base%s/%s", sgn(sdk.NewIntFromBigInt(op.Base)), cls))
			if strings.Contains(label, "sub-unit") || strings.Contains(label, "zero") {
				m.hit("C07", "fee-floored-to-one", "")
			}
			if fee.Cmp(lo) < 0 || fee.Cmp(hi) > 0 {
				m.fail(sc, "C07", "fee-follows-pricing", cmpClass(fee, lo)+"/"+labelClass(label)+"@"+cls, "request to %.8s carries fee %s; pricing %s at %s with volume %d gives %s (%s)", hexs(r.Provider), fee, b.Pricing, pre.Time.Format("2006-01-02T15:04:05.999999999Z"), vol, lo, label)
			}
			maxFee := new(big.Int).Set(op.Base)
			if maxFee.Sign() == 0 {
				maxFee = big.NewInt(1)
			}
			if fee.Cmp(maxFee) > 0 {
				m.fail(sc, "C07", "fee-at-most-base", cls, "fee %s exceeds base price %s", fee, op.Base)
			}
			// C06: cap
			capAmt := bi(coinsAmt(rc.ServiceFeeCap))
			m.hit("C06", "fee-within-cap", fmt.Sprintf("cmp%d/%s", fee.Cmp(capAmt), cls))
			if fee.Cmp(capAmt) > 0 {
				m.fail(sc, "C06", "fee-within-cap", cls, "request to %.8s carries fee %s above the context's cap %s", hexs(r.Provider), fee, capAmt)
			}
		}
	}
	// C07: requests made in super mode cost the consumer nothing
	superOnly := map[string]bool{}
	charged := map[string]bool{}
	for _, ids := range newReqs {
		for _, id := range ids {
			r := post.Requests[id]
			rc, ok := pre.Contexts[hexs(r.RequestContextId)]
			if !ok {
				rc = post.Contexts[hexs(r.RequestContextId)]
			}
			c := hexs(rc.Consumer)
			if rc.SuperMode {
				if !charged[c] {
					superOnly[c] = true
				}
			} else {
				charged[c] = true
				delete(superOnly, c)
			}
		}
	}
	for c := range superOnly {
		want := new(big.Int)
		if sc.IsBlock() {
			if v := sc.block().Refunds[c]; v != nil {
				want = v
			}
		}
		if _, tracked := post.Bal[c]; tracked {
			m.hit("C07", "super-mode-costs-nothing", cls)
			if d := delta(pre, post, c); !eqInt(d, want) {
				m.fail(sc, "C07", "super-mode-costs-nothing", cls, "consumer %.8s only got super-mode requests in %s but its balance moved by %s (expected %s)", c, sc.Step.Desc, d, want)
			}
		}
	}

	// C07: volume records
	for k, v := range post.Volumes {
		if pv := pre.Volumes[k]; pv != v {
			okChange := false
			if v == pv+1 {
				if si.respond != nil {
					exp := si.respCtx.Consumer.String() + "\x00" + si.respCtx.ServiceName + "\x00" + si.respReq.Provider.String()
					okChange = k == exp
				} else if si.modSvcCall != nil {
					okChange = strings.HasPrefix(k, si.modSvcCall.Consumer.String()+"\x00"+modSvcName+"\x00")
				}
			}
			if !okChange {
				m.fail(sc, "C07", "volume-moves-by-responses-only", cls, "volume record %q moved %d -> %d in %s", strings.ReplaceAll(k, "\x00", "|"), pv, v, sc.Step.Desc)
			}
		}
	}
	for k := range pre.Volumes {
		if _, ok := post.Volumes[k]; !ok {
			m.fail(sc, "C07", "volume-moves-by-responses-only", "deleted@"+cls, "volume record %q disappeared", strings.ReplaceAll(k, "\x00", "|"))
		}
	}
	if si.respond != nil {
		// every response the provider delivered (accepted and recorded) counts, whatever its output
		k := si.respCtx.Consumer.String() + "\x00" + si.respCtx.ServiceName + "\x00" + si.respReq.Provider.String()
		m.hit("C07", "volume-plus-one", fmt.Sprintf("v%d/good%v", minInt(int(pre.Volumes[k]), 4), si.respGood))
		if post.Volumes[k] != pre.Volumes[k]+1 {
			m.fail(sc, "C07", "volume-plus-one", fmt.Sprintf("good%v", si.respGood), "an accepted response (well-formed=%v) did not raise the delivered volume by one (%d -> %d)", si.respGood, pre.Volumes[k], post.Volumes[k])
		}
	}

	// C06: a module-service call is a batch of one: its provider must be eligible too
	if si.modSvcCall != nil {
		for _, ids := range newReqs {
			for _, id := range ids {
				r := post.Requests[id]
				rc, ok := post.Contexts[hexs(r.RequestContextId)]
				if !ok {
					continue
				}
				b, ok := pre.Bindings[bkey(rc.ServiceName, r.Provider)]
				m.eval("C06")
				m.hit("C06", "module-service-eligible", fmt.Sprintf("qos%d/avail%v", minInt(int(b.QoS), 4), b.Available))
				if !ok || !b.Available || b.QoS > uint64(rc.Timeout) {
					m.fail(sc, "C06", "eligible-set", "module-service-provider-ineligible", "module-service request issued to a provider whose binding is available=%v with response time %d, the context's timeout is %d", b.Available, b.QoS, rc.Timeout)
				}
			}
		}
	}
	// C06: issue / skip / pause decision, block steps only
	if !sc.IsBlock() {
		return
	}
	m.eval("C06")
	be := sc.block()
	// how many contexts of each consumer are due in this block (for the exact funds check)
	due := map[string]int{}
	dueCtx := map[string]bool{}
	for id, rc := range pre.Contexts {
		isDue := false
		for _, h := range pre.NewQ[id] {
			if h == be.H {
				isDue = true
			}
		}
		for _, h := range pre.ExpQ[id] {
			if h == be.H && rc.Repeated && int64(rc.RepeatedFrequency) == rc.Timeout {
				isDue = true
			}
		}
		if isDue {
			due[hexs(rc.Consumer)]++
			dueCtx[id] = true
		}
	}
	for id, rc := range pre.Contexts {
		prc, ok := post.Contexts[id]
		if !ok {
			continue
		}
		advanced := prc.BatchCounter == rc.BatchCounter+1
		pausedNow := rc.State == types.RUNNING && prc.State == types.PAUSED
		if !advanced && !pausedNow {
			// a running context whose batch was due in this block and that is still running afterwards
			// has been given that batch (issued or skipped: counter + 1); if its consumer could not
			// pay it has been paused. "Nothing happened" is not among the outcomes.
			if dueCtx[id] && rc.State == types.RUNNING && prc.State == types.RUNNING {
				m.hit("C09", "due-context-handled", "untouched")
				m.fail(sc, "C09", "transition", "due-but-untouched", "context %.16s was running and due for a batch at block %d; after the block it is still running, its batch counter did not move and it was not paused", id, be.H)
			}
			continue
		}
		if dueCtx[id] {
			m.hit("C09", "due-context-handled", fmt.Sprintf("advanced%v/paused%v", advanced, pausedNow))
		}
		named := rc
		if t := m.ctxs[id]; t != nil && t.Providers != nil && !sameStrings(t.Providers, provHex(rc.Providers)) {
			// the stored list no longer is what the consumer named (judged under C09 as well)
			named.Providers = unhexAddrs(t.Providers)
			m.fail(sc, "C06", "eligible-set", "stored-providers-differ-from-named", "context %.16s lists providers %v but its consumer named %v", id, short8(provHex(rc.Providers)), short8(t.Providers))
		}
		ei := sc.eligible(named, be.Bindings)
		var issued []string
		for _, rid := range newReqs[fmt.Sprintf("%s/%d", id, rc.BatchCounter+1)] {
			issued = append(issued, hexs(post.Requests[rid].Provider))
		}
		need := int(rc.ResponseThreshold)
		if t := m.ctxs[id]; t != nil && t.Module != "" && t.NamedThreshold != 0 && int(t.NamedThreshold) != need {
			// the threshold its module named last, should the record have lost it (a restart, say)
			m.fail(sc, "C06", "threshold", "stored-differs-from-named@batch", "context %.16s reaches a batch with response threshold %d stored, its module named %d", id, rc.ResponseThreshold, t.NamedThreshold)
			need = int(t.NamedThreshold)
		}
		if need < 1 {
			need = 1
		}
		sameBlockSlash := false
		for _, p := range rc.Providers {
			if eb := be.Bindings[bkey(rc.ServiceName, p)]; eb != nil && eb.TurnedOff {
				sameBlockSlash = true
			}
		}
		sit := fmt.Sprintf("provs%d/elig%d/need%d/super%v/mod%v/slashoff%v", minInt(len(rc.Providers), 4), minInt(len(ei.Sure), 4), need, rc.SuperMode, rc.ModuleName != "", sameBlockSlash)
		switch {
		case advanced && len(issued) > 0:
			m.hit("C06", "issued", sit)
			if sameBlockSlash {
				m.hit("C06", "same-block-slash-then-filter", "")
			}
			if !(isSubseq(ei.Sure, issued) && isSubseq(issued, ei.Maybe)) {
				m.fail(sc, "C06", "eligible-set", diffClass(issued, ei.Sure), "context %.16s batch %d at block %d: requests went to %v, eligible providers are %v (context lists %d, timeout %d, cap %s)", id, prc.BatchCounter, be.H, short8(issued), short8(ei.Sure), len(rc.Providers), rc.Timeout, rc.ServiceFeeCap)
			}
			if len(issued) < need {
				m.fail(sc, "C06", "threshold", "issued-below", "context %.16s issued %d requests, below its threshold %d", id, len(issued), need)
			}
		case advanced:
			m.hit("C06", "skipped", sit)
			if len(ei.Sure) >= need {
				m.fail(sc, "C06", "skipped-only-if-too-few", "", "context %.16s batch %d skipped at block %d although %d providers are eligible (needs %d): %v", id, prc.BatchCounter, be.H, len(ei.Sure), need, short8(ei.Sure))
			}
		case pausedNow:
			m.hit("C06", "paused-for-funds", sit)
			cost := new(big.Int)
			for _, p := range ei.Maybe {
				cost.Add(cost, ei.PriceHi[p])
			}
			if len(issued) > 0 || len(newReqs[fmt.Sprintf("%s/%d", id, rc.BatchCounter)]) > 0 {
				m.fail(sc, "C06", "paused-no-requests", "", "context %.16s paused by end-of-block but requests were issued", id)
			}
			c := hexs(rc.Consumer)
			if rc.SuperMode || len(ei.Maybe) < need {
				m.fail(sc, "C06", "paused-only-for-funds", fmt.Sprintf("super%v", rc.SuperMode), "context %.16s paused by end-of-block although super=%v and only %d providers eligible (needs %d)", id, rc.SuperMode, len(ei.Maybe), need)
			} else if _, tracked := post.Bal[c]; tracked {
				if cost.Cmp(bi(post.Bal[c])) <= 0 {
					m.fail(sc, "C06", "paused-only-for-funds", "could-pay", "context %.16s paused for funds at block %d: batch costs %s, consumer still holds %s", id, be.H, cost, post.Bal[c])
					m.fail(sc, "C09", "transition", "running->paused-without-cause", "context %.16s paused by end-of-block %d although its consumer can pay the batch (%s of %s)", id, be.H, cost, post.Bal[c])
				}
			}
		}
		// exact funds decision when this is the consumer's only due context
		c := hexs(rc.Consumer)
		if _, tracked := post.Bal[c]; tracked && due[c] == 1 && !rc.SuperMode && len(ei.Sure) == len(ei.Maybe) && len(ei.Sure) >= need {
			cost := new(big.Int)
			exact := true
			for _, p := range ei.Sure {
				if ei.PriceLo[p].Cmp(ei.PriceHi[p]) != 0 {
					exact = false
				}
				cost.Add(cost, ei.PriceLo[p])
			}
			avail := new(big.Int).Set(bi(pre.Bal[c]))
			if v := be.Refunds[c]; v != nil {
				avail.Add(avail, v)
			}
			if exact {
				canPay := cost.Cmp(avail) <= 0
				m.hit("C06", "funds-decision", fmt.Sprintf("margin%d", clampI(new(big.Int).Sub(avail, cost).Int64(), -2, 2)))
				if canPay && pausedNow {
					m.fail(sc, "C06", "funds-decision", "paused-though-funded", "context %.16s paused although the consumer holds %s and the batch costs %s", id, avail, cost)
					m.fail(sc, "C09", "transition", "running->paused-without-cause", "context %.16s paused by end-of-block %d although its consumer holds %s and the batch costs %s", id, be.H, avail, cost)
				}
				if !canPay && advanced && len(issued) > 0 {
					m.fail(sc, "C06", "funds-decision", "issued-though-unfunded", "context %.16s issued a batch costing %s although the consumer holds only %s", id, cost, avail)
				}
			}
		}
	}
}

func labelClass(l string) string {
	parts := strings.Split(l, "/")
	return parts[len(parts)-1]
}

func short8(xs []string) []string {
	out := make([]string, len(xs))
	for i, x := range xs {
		if len(x) > 8 {
			x = x[:8]
		}
		out[i] = x
	}
	return out
}

func diffClass(issued, elig []string) string {
	in := map[string]bool{}
	for _, e := range elig {
		in[e] = true
	}
	extra := 0
	for _, i := range issued {
		if !in[i] {
			extra++
		}
	}
	switch {
	case extra > 0:
		return "ineligible-provider-requested"
	case len(issued) < len(elig):
		return "eligible-provider-omitted"
	}
	return "order"
}

// ---------------------------------------------------------------------------
// C08

func (m *Mon) stepC08(sc *StepCtx, si stepInfo) {
	if sc.Idx < 0 {
		return
	}
	pre, post := sc.Pre, sc.Post
	if mm, ok := sc.Msg.(*types.MsgRespondService); ok && sc.Res.Rejected {
		// stateless validation may refuse a response for its own shape (result, output), never for
		// the ID of a request that is pending: the ID was issued by the module itself
		rid := hexs(mm.RequestId)
		if r, known := pre.Requests[rid]; known && pre.ActiveID[rid] && bytes.Equal(r.Provider, mm.Provider) && strings.Contains(strings.ToLower(sc.Res.Err), "request id") {
			m.eval("C08")
			m.fail(sc, "C08", "admission", "rejected-valid:stateless-request-id", "response by the designated provider to a pending request (expiry %d, now %d) was refused by stateless validation because of its request ID: %s", r.ExpirationHeight, pre.Height, sc.Res.Err)
		}
	}
	if mm, ok := sc.Msg.(*types.MsgRespondService); ok && !sc.Res.Rejected {
		m.eval("C08")
		rid := hexs(mm.RequestId)
		r, known := pre.Requests[rid]
		pending := pre.ActiveID[rid]
		right := known && bytes.Equal(r.Provider, mm.Provider)
		want := known && pending && right
		off := int64(-99)
		ctxState := "none"
		if known {
			off = clampI(r.ExpirationHeight-pre.Height, -1, 4)
			if rc, ok := pre.Contexts[hexs(r.RequestContextId)]; ok {
				ctxState = rc.State.String()
			}
		} else if le := m.reqs[rid]; le != nil {
			off = clampI(le.ExpH-pre.Height, -3, 0) - 10 // gone: how long after expiry
		}
		sit := fmt.Sprintf("known%v/pending%v/right%v/off%d/ctx-%s/%s", known, pending, right, off, ctxState, okStr(sc.Res))
		m.hit("C08", "admission", sit)
		if want && off == 0 {
			m.hit("C08", "accepted-in-expiry-block", "")
		}
		if !known && m.reqs[rid] != nil {
			m.hit("C08", "rejected-after-expiry", "")
		}
		if sc.Res.Panic == "" {
			if want && !sc.Res.OK {
				m.fail(sc, "C08", "admission", "rejected-valid", "response by the designated provider to a pending request (expiry %d, now %d) was rejected: %s", r.ExpirationHeight, pre.Height, sc.Res.Err)
				m.fail(sc, "C02", "R2-good-response", "refused", "the designated provider answered a pending request in time (expiry %d, now %d) but the response was refused (%s): the fee cannot reach its earnings", r.ExpirationHeight, pre.Height, sc.Res.Err)
			}
			if !want && sc.Res.OK {
				m.fail(sc, "C08", "admission", fmt.Sprintf("accepted-known%v-pending%v-right%v", known, pending, right), "response accepted although request known=%v pending=%v provider-matches=%v", known, pending, right)
			}
		} else if want {
			// a handler that panics on the response (C20 reports the panic itself) has not accepted it
			m.fail(sc, "C08", "admission", "panicked-on-valid", "response by the designated provider to a pending request (expiry %d, now %d) made the handler panic instead of being accepted: %s", r.ExpirationHeight, pre.Height, sc.Res.Panic)
		}
	}
	if sc.IsBlock() {
		m.eval("C08")
		stillPending := map[string]bool{}
		for id := range post.ActiveID {
			stillPending[id] = true
		}
		for id := range post.ActiveBind {
			stillPending[id] = true // the provider-side listing counts as pending too
		}
		for id := range stillPending {
			exp, known := int64(0), false
			if r, ok := post.Requests[id]; ok {
				exp, known = r.ExpirationHeight, true
			} else if le := m.reqs[id]; le != nil {
				exp, known = le.ExpH, true // the record may be gone while a marker survives
			}
			if known && exp <= pre.Height {
				m.fail(sc, "C08", "not-pending-after-expiry-block", "", "request %.24s.. with expiry %d still pending after block %d ended", id, exp, pre.Height)
			}
		}
		// expiry height fixed at issue = issue height + timeout in force
		for _, ids := range newRequests(sc) {
			for _, id := range ids {
				r := post.Requests[id]
				rc, ok := pre.Contexts[hexs(r.RequestContextId)]
				if !ok {
					continue
				}
				m.hit("C08", "expiry-height-at-issue", fmt.Sprintf("t%d", clampI(rc.Timeout, 0, 6)))
				if r.RequestHeight != pre.Height || r.ExpirationHeight != pre.Height+rc.Timeout {
					m.fail(sc, "C08", "expiry-height-at-issue", fmt.Sprintf("off%d", clampI(r.ExpirationHeight-pre.Height-rc.Timeout, -2, 2)), "request issued at block %d under timeout %d records issue height %d and expiry %d", pre.Height, rc.Timeout, r.RequestHeight, r.ExpirationHeight)
				}
			}
		}
	}
}

// ---------------------------------------------------------------------------
// C09

func ctxOpTarget(sc *StepCtx) (op string, id string, ok bool) {
	if sc.IsMsg() {
		switch mm := sc.Msg.(type) {
		case *types.MsgPauseRequestContext:
			return "pause", hexs(mm.RequestContextId), true
		case *types.MsgStartRequestContext:
			return "start", hexs(mm.RequestContextId), true
		case *types.MsgKillRequestContext:
			return "kill", hexs(mm.RequestContextId), true
		case *types.MsgUpdateRequestContext:
			return "update", hexs(mm.RequestContextId), true
		}
		return "", "", false
	}
	if sc.Step.Kind == "mod" && sc.Step.Mod.Op != "create" {
		return sc.Step.Mod.Op, sc.Step.Mod.CtxID, true
	}
	return "", "", false
}

func termsEqual(a, b types.RequestContext) bool {
	if len(a.Providers) != len(b.Providers) {
		return false
	}
	for i := range a.Providers {
		if !bytes.Equal(a.Providers[i], b.Providers[i]) {
			return false
		}
	}
	return a.ServiceFeeCap.IsEqual(b.ServiceFeeCap) && a.Timeout == b.Timeout && a.RepeatedFrequency == b.RepeatedFrequency &&
		a.RepeatedTotal == b.RepeatedTotal && a.ResponseThreshold == b.ResponseThreshold
}

func (m *Mon) stepC09(sc *StepCtx, si stepInfo) {
	if sc.Idx < 0 {
		return
	}
	m.eval("C09")
	pre, post := sc.Pre, sc.Post
	op, target, isCtxOp := ctxOpTarget(sc)
	cls := stepClass(sc)
	if isCtxOp {
		if rc, ok := pre.Contexts[target]; ok {
			m.hit("C09", "control-op", fmt.Sprintf("%s/from-%s/rep%v/mod%v/inflight%v%s", op, rc.State, rc.Repeated, rc.ModuleName != "", len(pre.ExpQ[target]) > 0, okStr(sc.Res)))
			if sc.Res.OK {
				bad := ""
				switch op {
				case "pause":
					if !rc.Repeated || rc.State != types.RUNNING {
						bad = "pause needs a repeated running context"
					}
				case "start":
					if rc.State != types.PAUSED {
						bad = "start needs a paused context"
					}
				case "kill":
					if !rc.Repeated {
						bad = "kill needs a repeated context"
					}
				case "update":
					if rc.State == types.COMPLETED {
						bad = "a completed context is never updated"
					}
				}
				if bad != "" {
					m.fail(sc, "C09", "transition-guard", fmt.Sprintf("%s-from-%s-rep%v", op, rc.State, rc.Repeated), "%s accepted on a %s context (repeated=%v): %s", op, rc.State, rc.Repeated, bad)
				}
			}
		}
	}
	// kills accepted from inside the module's state callback count as kills
	cbKilled := map[string]bool{}
	for _, cb := range sc.Res.Callbacks {
		if cb.React == "kill" && cb.ReactOK {
			cbKilled[cb.CtxID] = true
			if t := m.ctxs[cb.CtxID]; t != nil && !t.Killed {
				t.Killed, t.KilledIdx = true, sc.Idx
			}
			b, ok := post.Contexts[cb.CtxID]
			m.hit("C09", "kill-inside-state-callback", "")
			if ok && b.State != types.COMPLETED {
				m.fail(sc, "C09", "completed-is-final", "kill-in-callback-overwritten", "the owning module killed context %.16s from its state callback (accepted), but the context ends the step %s", cb.CtxID, b.State)
			}
		}
	}
	for id, a := range pre.Contexts {
		b, ok := post.Contexts[id]
		if !ok {
			m.hit("C09", "removed", cls)
			if !sc.IsBlock() {
				// the statements allow one removal outside end-of-block processing: an accepted kill of
				// a context that has nothing in flight may delete it at once (a completed context is
				// final either way; C16 only says when a killed context must be gone at the latest)
				idleKill := false
				if isCtxOp && op == "kill" && target == id && sc.Res.OK && len(pre.ExpQ[id]) == 0 {
					idleKill = true
					for rid := range pre.Requests {
						if c, _, _, _, ok := reqParts(rid); ok && c == id {
							idleKill = false
						}
					}
				}
				if cbKilled[id] && len(pre.ExpQ[id]) == 0 {
					idleKill = true
				}
				if !idleKill {
					m.fail(sc, "C09", "removed-only-at-block-end", cls, "context %.16s disappeared in %s", id, sc.Step.Desc)
				}
			} else {
				// a context's life ends only by kill or because it has no batch left: a one-shot context
				// whose batch has expired, a repeated one that reached its total. Anything else that is
				// removed (a context paused for lack of funds, a paused context with batches left, ...)
				// was "completed" by something that is neither kill nor exhaustion.
				hadExp := false
				for _, e := range pre.ExpQ[id] {
					if e == pre.Height {
						hadExp = true
					}
				}
				wasKilled := a.State == types.COMPLETED
				if t := m.ctxs[id]; t != nil && t.Killed {
					wasKilled = true
				}
				exhausted := hadExp && (!a.Repeated || (a.RepeatedTotal > 0 && int64(a.BatchCounter) >= a.RepeatedTotal))
				m.hit("C09", "ended-only-when-finished", fmt.Sprintf("killed%v/exhausted%v/st-%s", wasKilled, exhausted, a.State))
				if !wasKilled && !exhausted {
					m.fail(sc, "C09", "ended-only-when-finished", fmt.Sprintf("%s/rep%v/exp%v", a.State, a.Repeated, hadExp), "context %.16s (state %s, repeated=%v, batch %d of total %d, batch expiring in this block: %v) was removed at the end of block %d although it was neither killed nor out of batches", id, a.State, a.Repeated, a.BatchCounter, a.RepeatedTotal, hadExp, pre.Height)
				}
			}
			continue
		}
		if a.ServiceName != b.ServiceName || !bytes.Equal(a.Consumer, b.Consumer) || a.Input != b.Input || a.SuperMode != b.SuperMode || a.Repeated != b.Repeated || a.ModuleName != b.ModuleName {
			m.fail(sc, "C09", "immutable-fields", cls, "context %.16s changed an immutable field in %s", id, sc.Step.Desc)
		}
		if b.BatchCounter < a.BatchCounter || b.BatchCounter > a.BatchCounter+1 {
			m.fail(sc, "C09", "counter-step", cls, "context %.16s batch counter %d -> %d in one step", id, a.BatchCounter, b.BatchCounter)
		}
		if b.BatchCounter == a.BatchCounter+1 {
			m.hit("C09", "counter-advance", fmt.Sprintf("%s/pre-%s/post-%s", cls, a.State, b.State))
			if !a.Repeated && a.BatchCounter >= 1 {
				if t := m.ctxs[id]; t == nil || !t.Restarted {
					// a context that does not repeat has one batch; after it the context is over
					m.fail(sc, "C09", "counter-step", "one-shot-second-batch", "context %.16s does not repeat but is given batch %d", id, b.BatchCounter)
				}
			}
			if !sc.IsBlock() && si.modSvcCall == nil {
				m.fail(sc, "C09", "counter-advance-only-at-block-end", cls, "context %.16s batch counter advanced in %s", id, sc.Step.Desc)
			}
			if a.State != types.RUNNING {
				m.fail(sc, "C09", "batches-only-while-running", "pre-"+a.State.String(), "context %.16s in state %s got batch %d", id, a.State, b.BatchCounter)
			}
			if b.State != types.RUNNING && !cbKilled[id] { // (a module may kill it later in the same end-of-block)
				m.fail(sc, "C09", "batches-only-while-running", "post-"+b.State.String(), "context %.16s got batch %d in the step that left it %s", id, b.BatchCounter, b.State)
			}
		}
		if a.State != b.State {
			legal := false
			switch {
			case a.State == types.COMPLETED:
				legal = false
			case b.State == types.COMPLETED:
				legal = (isCtxOp && op == "kill" && target == id && sc.Res.OK) || cbKilled[id]
			case a.State == types.RUNNING && b.State == types.PAUSED:
				legal = (isCtxOp && op == "pause" && target == id && sc.Res.OK) || sc.IsBlock()
			case a.State == types.PAUSED && b.State == types.RUNNING:
				legal = isCtxOp && op == "start" && target == id && sc.Res.OK
			}
			m.hit("C09", "transition", fmt.Sprintf("%s->%s/%s", a.State, b.State, cls))
			if !legal {
				m.fail(sc, "C09", "transition", fmt.Sprintf("%s->%s@%s", a.State, b.State, cls), "context %.16s went %s -> %s in %s", id, a.State, b.State, sc.Step.Desc)
			}
		}
		if !termsEqual(a, b) {
			legal := isCtxOp && op == "update" && target == id && sc.Res.OK
			if !legal {
				m.fail(sc, "C09", "terms-change-only-by-update", cls, "context %.16s terms changed in %s", id, sc.Step.Desc)
			}
			if a.State == types.COMPLETED {
				m.fail(sc, "C09", "completed-is-final", "updated", "completed context %.16s was updated", id)
			}
		}
	}
	for id := range post.Contexts {
		if _, ok := pre.Contexts[id]; ok {
			continue
		}
		created := sc.Res.OK && sc.Res.NewCtxID == id
		m.hit("C09", "created", cls)
		if !created {
			m.fail(sc, "C09", "created-only-by-call", cls, "context %.16s appears in %s", id, sc.Step.Desc)
		}
	}
}

// ---------------------------------------------------------------------------
// C10 (first-batch rule; the rest runs when a counter advances, see mon_ledger.go)

func (m *Mon) stepC10(sc *StepCtx, si stepInfo) {
	if !sc.IsBlock() {
		return
	}
	pre, post := sc.Pre, sc.Post
	for id, rc := range pre.Contexts {
		t := m.ctxs[id]
		if t == nil || t.CreatedH != pre.Height || t.FirstChecked {
			continue
		}
		t.FirstChecked = true
		m.eval("C10")
		if rc.State != types.RUNNING {
			m.hit("C10", "first-batch", "not-running-at-block-end")
			continue
		}
		prc, ok := post.Contexts[id]
		if !ok {
			continue
		}
		// paused for lack of funds in this very block: no first batch is due any more
		t.RunningAtCreateBlockEnd = prc.State == types.RUNNING
		adv := prc.BatchCounter > rc.BatchCounter
		alreadyServed := rc.BatchCounter > 0 // module-service call: batch 1 ran inside the transaction
		m.hit("C10", "first-batch-at-call-height", fmt.Sprintf("adv%v/served%v/post-%s", adv, alreadyServed, prc.State))
		if !adv && !alreadyServed && prc.State == types.RUNNING {
			m.fail(sc, "C10", "first-batch-at-call-height", "missing", "context %.16s created in block %d and still running at its end got no batch in that block", id, pre.Height)
		}
	}
}

// ---------------------------------------------------------------------------
// C12 (callbacks)

func (m *Mon) stepC12(sc *StepCtx, si stepInfo) {
	if sc.Idx < 0 {
		return
	}
	pre, post := sc.Pre, sc.Post
	cls := stepClass(sc)
	seenResp := map[string]int{}
	for _, cb := range sc.Res.Callbacks {
		if cb.Kind == "react" {
			continue // not a callback: an operation the module double performed from inside one
		}
		t := m.ctxs[cb.CtxID]
		if t == nil || t.Module != verifModule {
			m.fail(sc, "C12", "callback-only-for-module-contexts", cb.Kind, "%s callback for context %.16s which is not owned by the module", cb.Kind, cb.CtxID)
			continue
		}
		if cb.Kind == "state" {
			a, b := pre.Contexts[cb.CtxID], post.Contexts[cb.CtxID]
			m.hit("C12", "state-callback", cls)
			killedByReaction := false
			for _, o := range sc.Res.Callbacks {
				if o.CtxID == cb.CtxID && o.React == "kill" && o.ReactOK {
					killedByReaction = true // by its own callback or by another context's
				}
			}
			if !(sc.IsBlock() && a.State == types.RUNNING && (b.State == types.PAUSED || killedByReaction)) {
				m.fail(sc, "C12", "state-callback-only-on-funds-pause", cls, "state callback (%q) for context %.16s in %s, which did not pause it for lack of funds", cb.Cause, cb.CtxID, sc.Step.Desc)
			}
			continue
		}
		seenResp[cb.CtxID]++
		bi := t.Batches[cb.SeenCounter]
		if bi == nil {
			m.fail(sc, "C12", "callback-per-batch", "unknown-batch", "response callback for context %.16s saw batch %d which never started", cb.CtxID, cb.SeenCounter)
			continue
		}
		bi.Callbacks++
		// expected outputs
		src := pre.Responses
		if !sc.IsBlock() {
			src = post.Responses
		}
		var want []string
		for rid, resp := range src {
			if c, n, _, _, ok := reqParts(rid); ok && c == cb.CtxID && n == cb.SeenCounter && len(resp.Output) > 0 {
				want = append(want, resp.Output)
			}
		}
		got := append([]string(nil), cb.Outputs...)
		sort.Strings(want)
		sort.Strings(got)
		sit := fmt.Sprintf("%s/issued%d/outs%d/thr%d/err%v", cls, minInt(bi.Issued, 4), minInt(len(got), 4), bi.Threshold, cb.Err)
		m.hit("C12", "callback-arguments", sit)
		if !sameStrings(got, want) {
			m.fail(sc, "C12", "callback-arguments", "outputs", "response callback of context %.16s batch %d got %d outputs %v, the batch's responses hold %d non-empty outputs %v", cb.CtxID, cb.SeenCounter, len(got), got, len(want), want)
		}
		if cb.Err != (len(want) < int(bi.Threshold)) {
			m.fail(sc, "C12", "callback-arguments", fmt.Sprintf("err%v", cb.Err), "response callback of context %.16s batch %d: %d outputs, threshold %d, error=%v", cb.CtxID, cb.SeenCounter, len(want), bi.Threshold, cb.Err)
		}
		if bi.Callbacks > 1 {
			m.fail(sc, "C12", "callback-per-batch", "twice", "response callback invoked %d times for context %.16s batch %d", bi.Callbacks, cb.CtxID, cb.SeenCounter)
		}
		if bi.Closed {
			m.fail(sc, "C12", "callback-per-batch", "after-close", "response callback for context %.16s batch %d after its expiry block ended", cb.CtxID, cb.SeenCounter)
		}
		bi.CbOutputs = got
		bi.CbErr = cb.Err
		bi.HasCb = true
	}
	// pay-failure pause of a module context => exactly one state callback
	if sc.IsBlock() {
		for id, a := range pre.Contexts {
			b, ok := post.Contexts[id]
			if !ok || a.ModuleName != verifModule || !(a.State == types.RUNNING && b.State == types.PAUSED) {
				continue
			}
			n := 0
			for _, cb := range sc.Res.Callbacks {
				if cb.Kind == "state" && cb.CtxID == id {
					n++
				}
			}
			m.hit("C12", "state-callback-on-funds-pause", "")
			if n != 1 {
				m.fail(sc, "C12", "state-callback-on-funds-pause", fmt.Sprintf("n%d", n), "module context %.16s paused for lack of funds: %d state callbacks", id, n)
			}
		}
		// batches whose expiry block just ended must have had exactly one callback
		for id, t := range m.ctxs {
			if t.Module != verifModule {
				continue
			}
			for _, bi := range t.Batches {
				if bi.Closed || bi.ExpH != pre.Height {
					continue
				}
				bi.Closed = true
				m.eval("C12")
				m.hit("C12", "callback-per-batch", fmt.Sprintf("issued%d/thr%d", minInt(bi.Issued, 4), bi.Threshold))
				if bi.Callbacks != 1 {
					m.fail(sc, "C12", "callback-per-batch", fmt.Sprintf("n%d", bi.Callbacks), "context %.16s batch %d (issued %d requests at %d, expiry %d): %d response callbacks by the end of its expiry block", id, bi.Counter, bi.Issued, bi.StartH, bi.ExpH, bi.Callbacks)
				}
				// the one callback must have carried the outputs of ALL the batch's responses
				if bi.HasCb {
					var final []string
					for rid, resp := range pre.Responses {
						if c, n, _, _, ok := reqParts(rid); ok && c == id && n == bi.Counter && len(resp.Output) > 0 {
							final = append(final, resp.Output)
						}
					}
					sort.Strings(final)
					m.hit("C12", "callback-final-outputs", fmt.Sprintf("outs%d/thr%d", minInt(len(final), 4), bi.Threshold))
					if !sameStrings(final, bi.CbOutputs) || bi.CbErr != (len(final) < int(bi.Threshold)) {
						m.fail(sc, "C12", "callback-final-outputs", fmt.Sprintf("got%d-final%d", len(bi.CbOutputs), len(final)), "context %.16s batch %d: the response callback carried %d outputs (error=%v) but the batch ended with %d non-empty outputs (threshold %d)", id, bi.Counter, len(bi.CbOutputs), bi.CbErr, len(final), bi.Threshold)
					}
				}
			}
		}
		// after the expiry block the batch state is completed
		for id, a := range pre.Contexts {
			isExp := false
			for _, h := range pre.ExpQ[id] {
				if h == pre.Height {
					isExp = true
				}
			}
			if b, ok := post.Contexts[id]; ok && isExp && b.BatchCounter == a.BatchCounter {
				m.hit("C12", "completed-after-expiry", "")
				if b.BatchState != types.BATCHCOMPLETED {
					m.fail(sc, "C12", "batch-state", "running-after-expiry", "context %.16s batch %d still %s after its expiry block", id, b.BatchCounter, b.BatchState)
				}
			}
		}
	}
}

// ---------------------------------------------------------------------------
// C13 (step part)

func (m *Mon) stepC13(sc *StepCtx, si stepInfo) {
	if sc.Idx < 0 {
		return
	}
	pre, post := sc.Pre, sc.Post
	cls := stepClass(sc)
	w := sc.run.w
	// E4: withdrawal-address records
	for o, a := range post.Withdraw {
		if pre.Withdraw[o] != a {
			mm, ok := sc.Msg.(*types.MsgSetWithdrawAddress)
			if !ok || !sc.Res.OK || hexs(mm.Owner) != o || hexs(mm.WithdrawAddress) != a {
				m.fail(sc, "C13", "E4-withdraw-address", cls, "withdrawal address of %.8s changed in %s", o, sc.Step.Desc)
			} else {
				m.hit("C13", "E4-withdraw-address", "")
			}
		}
	}
	if mm, ok := sc.Msg.(*types.MsgSetWithdrawAddress); ok && sc.Res.OK {
		eff := hexs(mm.Owner)
		if a, ok := post.Withdraw[eff]; ok {
			eff = a
		}
		m.hit("C13", "E4-set-takes-effect", fmt.Sprintf("back-to-owner%v/len%d", bytes.Equal(mm.Owner, mm.WithdrawAddress), minInt(len(mm.WithdrawAddress), 21)))
		if eff != hexs(mm.WithdrawAddress) {
			m.fail(sc, "C13", "E4-withdraw-address", "set-ignored", "owner %.8s set its withdrawal address to %x but payouts still go to %.16s", hexs(mm.Owner), []byte(mm.WithdrawAddress), eff)
		}
	}
	for o := range pre.Withdraw {
		if _, ok := post.Withdraw[o]; !ok {
			m.fail(sc, "C13", "E4-withdraw-address", "deleted", "withdrawal address of %.8s deleted in %s", o, sc.Step.Desc)
		}
	}
	// expected earnings changes
	wantEarn := map[string]*big.Int{}  // provider -> expected post value
	wantOwner := map[string]*big.Int{} // owner -> expected post value
	judged := false
	switch {
	case si.withdraw != nil:
		m.eval("C13")
		judged = true
		owner := hexs(si.withdraw.Owner)
		waddr := owner
		if a, ok := pre.Withdraw[owner]; ok {
			waddr = a
		}
		var paid *big.Int
		if len(si.withdraw.Provider) > 0 {
			p := hexs(si.withdraw.Provider)
			paid = bi(pre.earned(p))
			wantEarn[p] = new(big.Int)
			wantOwner[owner] = new(big.Int).Sub(bi(pre.ownerEarned(owner)), paid)
			related := 0
			for q := range pre.Earned {
				if q != p && (strings.HasPrefix(q, p) || strings.HasPrefix(p, q)) {
					related++
				}
			}
			m.hit("C13", "E2-withdraw-provider", fmt.Sprintf("paid%s/prefix-related%d/waddr%v/plen%d", sgn(sdk.NewIntFromBigInt(paid)), minInt(related, 2), waddr != owner, len(si.withdraw.Provider)))
		} else {
			paid = bi(pre.ownerEarned(owner))
			np := 0
			for p, o := range pre.ProvOwner {
				if o == owner {
					wantEarn[p] = new(big.Int)
					if pre.earned(p).IsPositive() {
						np++
					}
				}
			}
			wantOwner[owner] = new(big.Int)
			m.hit("C13", "E3-withdraw-owner", fmt.Sprintf("paid%s/np%d/waddr%v", sgn(sdk.NewIntFromBigInt(paid)), minInt(np, 3), waddr != owner))
		}
		if _, tracked := post.Bal[waddr]; tracked {
			if d := delta(pre, post, waddr); !eqInt(d, paid) {
				m.fail(sc, "C13", "E2-paid-amount", cmpClass(d, paid), "%s: withdrawal address %.8s received %s, the withdrawn records held %s", sc.Step.Desc, waddr, d, paid)
			}
		} else {
			m.fail(sc, "C13", "E2-paid-amount", "untracked", "withdrawal address %.8s is not observed by the harness", waddr)
		}
		if d := delta(pre, post, w.addrOf("escrow")); !eqInt(d, new(big.Int).Neg(paid)) {
			m.fail(sc, "C13", "E2-paid-amount", "escrow", "%s: escrow moved by %s, the withdrawn records held %s", sc.Step.Desc, d, paid)
		}
	case si.respond != nil && si.respGood:
		judged = true
		fee := coinsAmt(si.respReq.ServiceFee)
		net := new(big.Int).Sub(fee.BigInt(), taxOf(fee, pre.Params))
		p := hexs(si.respReq.Provider)
		wantEarn[p] = new(big.Int).Add(bi(pre.earned(p)), net)
		if o, ok := pre.ProvOwner[p]; ok {
			wantOwner[o] = new(big.Int).Add(bi(pre.ownerEarned(o)), net)
		}
		m.hit("C13", "E5-earn", "net"+sgn(sdk.NewIntFromBigInt(net)))
	case si.modSvcCall != nil:
		judged = true
		for _, ids := range newRequests(sc) {
			for _, id := range ids {
				if le := m.reqs[id]; le != nil && le.Status == "paid" {
					net := new(big.Int).Sub(le.Fee.BigInt(), taxOf(le.Fee, pre.Params))
					p := le.Provider
					wantEarn[p] = new(big.Int).Add(bi(pre.earned(p)), net)
					if o, ok := pre.ProvOwner[p]; ok {
						wantOwner[o] = new(big.Int).Add(bi(pre.ownerEarned(o)), net)
					}
				}
			}
		}
	default:
		judged = true
	}
	if !judged {
		return
	}
	provs := map[string]bool{}
	for p := range pre.Earned {
		provs[p] = true
	}
	for p := range post.Earned {
		provs[p] = true
	}
	for p := range provs {
		want := bi(pre.earned(p))
		if v, ok := wantEarn[p]; ok {
			want = v
		}
		if got := bi(post.earned(p)); !eqInt(got, want) {
			kind := "other-provider"
			if _, ok := wantEarn[p]; ok {
				kind = "target-provider"
			}
			m.fail(sc, "C13", "E2-exact-records", kind+"@"+cls, "%s: earnings of provider %s (%d bytes) are %s, expected %s (before: %s)", sc.Step.Desc, p, len(p)/2, got, want, pre.earned(p))
		}
	}
	owners := map[string]bool{}
	for o := range pre.OwnerEarned {
		owners[o] = true
	}
	for o := range post.OwnerEarned {
		owners[o] = true
	}
	for o := range owners {
		want := bi(pre.ownerEarned(o))
		if v, ok := wantOwner[o]; ok {
			want = v
		}
		if got := bi(post.ownerEarned(o)); !eqInt(got, want) {
			kind := "other-owner"
			if _, ok := wantOwner[o]; ok {
				kind = "target-owner"
			}
			m.fail(sc, "C13", "E2-exact-records", kind+"@"+cls, "%s: earnings of owner %.8s are %s, expected %s (before: %s)", sc.Step.Desc, o, got, want, pre.ownerEarned(o))
		}
	}
}

// ---------------------------------------------------------------------------
// C14 (non-vacuity counters for the rejection side; the invariant is in mon_state.go)

func (m *Mon) stepC14(sc *StepCtx, si stepInfo) {
	if !sc.IsMsg() {
		return
	}
	insufficient := !sc.Res.OK && strings.Contains(sc.Res.Err, "insufficient deposit")
	switch mm := sc.Msg.(type) {
	case *types.MsgBindService:
		if insufficient {
			m.hit("C14", "rejected-bind-below-minimum", "")
		}
	case *types.MsgEnableServiceBinding:
		if insufficient {
			m.hit("C14", "rejected-enable-below-minimum", "")
		}
	case *types.MsgUpdateServiceBinding:
		if insufficient {
			m.hit("C14", "rejected-update-below-minimum", "")
		}
		if sc.Res.OK && len(mm.Pricing) > 0 {
			if b, ok := sc.Pre.Bindings[bkey(mm.ServiceName, mm.Provider)]; ok {
				o1, e1 := ParsePricingText(b.Pricing)
				o2, e2 := ParsePricingText(mm.Pricing)
				if e1 == nil && e2 == nil {
					m.hit("C14", "accepted-price-change", fmt.Sprintf("cmp%d/avail%v", o2.Base.Cmp(o1.Base), b.Available))
					if o2.Base.Cmp(o1.Base) > 0 && b.Available {
						m.hit("C14", "accepted-price-increase", "")
					}
				}
			}
		}
	}
}

// ---------------------------------------------------------------------------
// C15 (step part)

func (m *Mon) stepC15(sc *StepCtx, si stepInfo) {
	if sc.Idx < 0 {
		return
	}
	pre, post := sc.Pre, sc.Post
	cls := stepClass(sc)
	for name, raw := range pre.DefRaw {
		if post.DefRaw[name] != raw {
			m.fail(sc, "C15", "definition-immutable", cls, "definition %s changed or disappeared in %s", name, sc.Step.Desc)
		}
	}
	for name := range post.DefRaw {
		if _, ok := pre.DefRaw[name]; !ok {
			mm, isDef := sc.Msg.(*types.MsgDefineService)
			if !isDef || !sc.Res.OK || mm.Name != name {
				m.fail(sc, "C15", "definition-created-by-define", cls, "definition %s appears in %s", name, sc.Step.Desc)
			}
		}
	}
	if mm, ok := sc.Msg.(*types.MsgDefineService); ok && !sc.Res.Rejected {
		_, exists := pre.DefRaw[mm.Name]
		m.hit("C15", "define", fmt.Sprintf("exists%v%s", exists, okStr(sc.Res)))
		if exists && sc.Res.OK {
			m.fail(sc, "C15", "duplicate-definition-rejected", "", "second definition of %s accepted", mm.Name)
		}
	}
	if mm, ok := sc.Msg.(*types.MsgBindService); ok && !sc.Res.Rejected {
		_, exists := pre.Bindings[bkey(mm.ServiceName, mm.Provider)]
		_, defined := pre.Defs[mm.ServiceName]
		m.hit("C15", "bind", fmt.Sprintf("exists%v/defined%v/plen%d%s", exists, defined, len(mm.Provider), okStr(sc.Res)))
		if sc.Res.OK && (exists || !defined) {
			m.fail(sc, "C15", "binding-unique-and-defined", fmt.Sprintf("exists%v-defined%v", exists, defined), "bind accepted although binding exists=%v service defined=%v", exists, defined)
		}
	}
	for bk, a := range pre.Bindings {
		b, ok := post.Bindings[bk]
		if !ok {
			m.fail(sc, "C15", "binding-identity", "deleted@"+cls, "binding %q disappeared in %s", bk, sc.Step.Desc)
			continue
		}
		if !bytes.Equal(a.Owner, b.Owner) || a.ServiceName != b.ServiceName || !bytes.Equal(a.Provider, b.Provider) {
			m.fail(sc, "C15", "binding-identity", "changed@"+cls, "binding %q changed service/provider/owner in %s", bk, sc.Step.Desc)
		}
	}
	for p, o := range pre.ProvOwner {
		if post.ProvOwner[p] != o {
			m.fail(sc, "C15", "provider-owner", "changed@"+cls, "owner of provider %.8s changed from %.8s to %.8s", p, o, post.ProvOwner[p])
		}
	}
}

// ---------------------------------------------------------------------------
// C16 (after-block part)

func (m *Mon) stepC16(sc *StepCtx, si stepInfo) {
	if !sc.IsBlock() {
		return
	}
	pre, post := sc.Pre, sc.Post
	h := pre.Height
	for id, rc := range pre.Contexts {
		isExp := false
		for _, e := range pre.ExpQ[id] {
			if e == h {
				isExp = true
			}
		}
		if !isExp {
			continue
		}
		m.eval("C16")
		nrec := 0
		for rid := range pre.Requests {
			if c, n, _, _, ok := reqParts(rid); ok && c == id && n == rc.BatchCounter {
				nrec++
				if _, still := post.Requests[rid]; still {
					m.fail(sc, "C16", "batch-cleaned-at-expiry", "request", "request record %.24s.. survives its batch's expiry block %d", rid, h)
				}
				if _, still := post.Responses[rid]; still {
					m.fail(sc, "C16", "batch-cleaned-at-expiry", "response", "response record %.24s.. survives its batch's expiry block %d", rid, h)
				}
				if post.ActiveID[rid] {
					m.fail(sc, "C16", "batch-cleaned-at-expiry", "marker", "pending marker %.24s.. survives its batch's expiry block %d", rid, h)
				}
				if _, still := post.ActiveBind[rid]; still {
					m.fail(sc, "C16", "batch-cleaned-at-expiry", "marker", "pending marker %.24s.. survives its batch's expiry block %d", rid, h)
				}
			}
		}
		wasKilled := false
		if t := m.ctxs[id]; t != nil {
			wasKilled = t.Killed && t.KilledIdx < sc.Idx // killed before this block's end-of-block processing
		}
		finished := !rc.Repeated || (rc.RepeatedTotal > 0 && int64(rc.BatchCounter) >= rc.RepeatedTotal) || rc.State == types.COMPLETED || wasKilled
		_, still := post.Contexts[id]
		kind := "one-shot"
		if rc.Repeated {
			kind = "total-reached"
			if rc.State == types.COMPLETED || wasKilled {
				kind = "killed"
			}
		}
		m.hit("C16", "expiry-cleanup", fmt.Sprintf("recs%d/finished%v/%s/st-%s/bs-%s", minInt(nrec, 3), finished, kind, rc.State, rc.BatchState))
		if finished && still {
			m.fail(sc, "C16", "finished-context-removed", kind+"/"+rc.State.String(), "context %.16s (%s, state %s, batch %d of total %d) survives the expiry block %d of its last batch", id, kind, rc.State, rc.BatchCounter, rc.RepeatedTotal, h)
		}
		killedNow := false // killed by its owning module from inside a callback during this very block
		for _, cb := range sc.Res.Callbacks {
			if cb.React == "kill" && cb.ReactOK && cb.CtxID == id {
				killedNow = true
			}
		}
		if !finished && !still && !killedNow {
			m.fail(sc, "C16", "unfinished-context-kept", rc.State.String(), "context %.16s (repeated, batch %d of total %d, state %s) was removed at block %d", id, rc.BatchCounter, rc.RepeatedTotal, rc.State, h)
		}
	}
	for id, rc := range post.Contexts {
		if rc.State == types.COMPLETED && len(post.ExpQ[id]) == 0 {
			m.hit("C16", "killed-idle-context-kept(not judged)", "")
		}
	}
}

// ---------------------------------------------------------------------------
// C20 (panic monitor; determinism is checked by the replay differential in c20.go)

func (m *Mon) stepC20(sc *StepCtx, si stepInfo) {
	if sc.Idx < 0 {
		return
	}
	m.eval("C20")
	cls := stepClass(sc)
	m.hit("C20", "no-panic", cls+okStr(sc.Res))
	if sc.Step.Kind == "sim" {
		cls = sc.Step.MsgType // a handler panic is the same defect whether the message is simulated or delivered
	}
	if sc.Res.Panic != "" {
		class := strings.SplitN(sc.Res.Panic, ":", 2)[0]
		m.fail(sc, "C20", "panic", fmt.Sprintf("%s@%s:%s", cls, sc.Res.PanicSite, class), "%s panicked: %s (first module frame %s)", sc.Step.Desc, sc.Res.Panic, sc.Res.PanicSite)
	}
	if sc.Res.WallNs > int64(120e9) {
		m.fail(sc, "C20", "hang", cls, "%s took %d s", sc.Step.Desc, sc.Res.WallNs/1e9)
	}
}

type protoM interface{ Marshal() ([]byte, error) }

func sameProto(a, b protoM) bool {
	x, e1 := a.Marshal()
	y, e2 := b.Marshal()
	return e1 == nil && e2 == nil && bytes.Equal(x, y)
}

// ---------------------------------------------------------------------------
// zero-height restart step: what C19 states about the preparation, plus the parts of
// the other properties that must survive a restart (C03 custody and C15 indexes are
// state invariants and are judged on the post-snapshot like after any step).

func (m *Mon) stepRestart(sc *StepCtx, si stepInfo) {
	pre, post := sc.Pre, sc.Post
	w := sc.run.w
	m.eval("C19")
	if !sc.Res.OK {
		m.fail(sc, "C19", "restart-completes", sc.Res.PanicSite+":"+valClass(sc.Res.Panic), "zero-height prepare/export/import failed: %s", sc.Res.Panic)
		return
	}
	m.hit("C19", "restart", fmt.Sprintf("pend%d/ctx%d/earn%v", minInt(len(pre.ActiveID), 3), minInt(len(pre.Contexts), 3), pre.sumEarned().IsPositive()))
	// creditors are paid exactly what they are owed, nobody else's balance moves
	want := map[string]*big.Int{}
	add := func(a string, v *big.Int) {
		if want[a] == nil {
			want[a] = new(big.Int)
		}
		want[a].Add(want[a], v)
	}
	for id := range pre.ActiveID {
		if r, ok := pre.Requests[id]; ok {
			if rc, ok := pre.Contexts[hexs(r.RequestContextId)]; ok {
				add(hexs(rc.Consumer), bi(coinsAmt(r.ServiceFee)))
			}
		}
	}
	for p, v := range pre.Earned {
		add(p, bi(v))
	}
	esc := w.addrOf("escrow")
	for a := range pre.Bal {
		if a == esc {
			continue
		}
		wv := want[a]
		if wv == nil {
			wv = new(big.Int)
		}
		if d := delta(pre, post, a); !eqInt(d, wv) {
			m.fail(sc, "C19", "prep-returns-escrow", "restart", "zero-height restart: %s (%d bytes) received %s, is owed %s", w.tracked[a], len(a)/2, d, wv)
			// C02: a paid request that is neither answered nor expired when the chain restarts is
			// settled all the same - its fee goes back to its consumer, once
			m.fail(sc, "C02", "R4-restart-refund", cmpClass(d, wv), "zero-height restart: %s received %s for its pending fees and earnings, is owed %s", w.tracked[a], d, wv)
			if a == w.addrOf("deposits") || d.Sign() < 0 {
				m.fail(sc, "C03", "custody", "restart", "zero-height restart moved %s of account %s", d, w.tracked[a])
			}
		}
	}
	if !post.Bal[esc].IsZero() {
		m.fail(sc, "C19", "prep-empties-escrow", "restart", "escrow holds %s after a zero-height restart", post.Bal[esc])
	}
	// contexts: all kept, all paused, identity and counter intact (C09, C10 rely on it)
	m.eval("C09")
	for id, a := range pre.Contexts {
		b, ok := post.Contexts[id]
		if !ok {
			// a context with nothing left to do (killed, a one-shot whose batch was issued, a repeated
			// one at its total) may be dropped by the preparation: the statements only say what
			// becomes of the contexts that are left
			if !abandonedAtRestart(a) {
				m.fail(sc, "C19", "import-complete", "context-lost@restart", "context %.16s is lost by a zero-height restart", id)
			} else if t := m.ctxs[id]; t != nil {
				t.Gone = true
			}
			continue
		}
		m.hit("C09", "survives-restart", fmt.Sprintf("from-%s/c%d", a.State, minInt(int(a.BatchCounter), 3)))
		if b.State != types.PAUSED || b.BatchState != types.BATCHCOMPLETED {
			m.fail(sc, "C19", "prep-pauses-contexts", "restart", "context %.16s is %s / batch %s after a zero-height restart", id, b.State, b.BatchState)
		}
		if a.ServiceName != b.ServiceName || !bytes.Equal(a.Consumer, b.Consumer) || a.Input != b.Input || a.SuperMode != b.SuperMode || a.Repeated != b.Repeated || a.ModuleName != b.ModuleName {
			m.fail(sc, "C09", "immutable-fields", "restart", "context %.16s changed an immutable field across a zero-height restart", id)
		}
		if b.BatchCounter < a.BatchCounter {
			m.fail(sc, "C09", "counter-step", "decreases@restart", "context %.16s batch counter went %d -> %d across a zero-height restart", id, a.BatchCounter, b.BatchCounter)
			m.fail(sc, "C10", "total-respected", "counter-reset@restart", "context %.16s batch counter went %d -> %d across a zero-height restart: batches already issued no longer count against its total", id, a.BatchCounter, b.BatchCounter)
		}
		if t := m.ctxs[id]; t != nil {
			t.Advances, t.Killed, t.Restarted = nil, false, true
		}
		if b.BatchCounter > a.BatchCounter {
			m.fail(sc, "C09", "counter-step", "increases@restart", "context %.16s batch counter went %d -> %d across a zero-height restart", id, a.BatchCounter, b.BatchCounter)
		}
		if !termsEqual(a, b) {
			m.fail(sc, "C09", "terms-change-only-by-update", "restart", "context %.16s terms changed across a zero-height restart", id)
			if a.Timeout != b.Timeout || a.RepeatedFrequency != b.RepeatedFrequency || a.RepeatedTotal != b.RepeatedTotal {
				m.fail(sc, "C10", "schedule-as-named", "restart", "context %.16s comes out of a zero-height restart with timeout %d / frequency %d / total %d, it went in with %d / %d / %d", id, b.Timeout, b.RepeatedFrequency, b.RepeatedTotal, a.Timeout, a.RepeatedFrequency, a.RepeatedTotal)
			}
			if a.ResponseThreshold != b.ResponseThreshold {
				m.fail(sc, "C12", "threshold-as-named", "restart", "context %.16s response threshold %d -> %d across a zero-height restart", id, a.ResponseThreshold, b.ResponseThreshold)
				m.fail(sc, "C06", "threshold", "changed@restart", "context %.16s response threshold %d -> %d across a zero-height restart", id, a.ResponseThreshold, b.ResponseThreshold)
			}
			if !a.ServiceFeeCap.IsEqual(b.ServiceFeeCap) || len(a.Providers) != len(b.Providers) {
				m.fail(sc, "C06", "eligible-set", "terms-changed@restart", "context %.16s providers / fee cap changed across a zero-height restart", id)
			}
		}
	}
	for id := range post.Contexts {
		if _, ok := pre.Contexts[id]; !ok {
			m.fail(sc, "C09", "created-only-by-call", "restart", "context %.16s appears at a zero-height restart", id)
		}
	}
	// nothing fails at a restart: no binding is slashed, disabled or otherwise touched
	m.eval("C04")
	for bk, b := range pre.Bindings {
		pb, ok := post.Bindings[bk]
		m.hit("C04", "no-failure-no-slash", "restart")
		if ok && (!coinsAmt(pb.Deposit).Equal(coinsAmt(b.Deposit)) || pb.Available != b.Available || (!b.Available && !pb.DisabledTime.Equal(b.DisabledTime))) {
			// (the disabled time of an available binding has no meaning and the re-written genesis
			// of a restart step deliberately changes it)
			m.fail(sc, "C04", "no-failure-no-slash", "restart", "binding %q went from deposit %s available=%v to deposit %s available=%v across a zero-height restart although no request failed", bk, coinsAmt(b.Deposit), b.Available, coinsAmt(pb.Deposit), pb.Available)
			if pb.Available != b.Available {
				// whether a binding takes requests is its owner's decision (or a slash's), not the import's
				m.fail(sc, "C06", "eligible-set", "availability-changed@restart", "binding %q is available=%v after a zero-height restart, was %v", bk, pb.Available, b.Available)
				m.fail(sc, "C14", "min-deposit", "availability-changed@restart", "binding %q is available=%v after a zero-height restart, was %v", bk, pb.Available, b.Available)
			}
		}
	}
	// the parameters in force are part of the state that survives
	if pb, qb := pbz(&pre.Params), pbz(&post.Params); !bytes.Equal(pb, qb) {
		m.fail(sc, "C19", "import-complete", "params@restart", "module parameters differ after a zero-height restart: %s -> %s", paramsDesc(pre.Params), paramsDesc(post.Params))
		if !pre.Params.SlashFraction.Equal(post.Params.SlashFraction) {
			m.fail(sc, "C04", "slash-amount", "fraction-changed@restart", "the slash fraction is %s after a zero-height restart, was %s", post.Params.SlashFraction, pre.Params.SlashFraction)
		}
		if !pre.Params.ServiceFeeTax.Equal(post.Params.ServiceFeeTax) {
			m.fail(sc, "C02", "R2-good-response", "tax-changed@restart", "the service fee tax is %s after a zero-height restart, was %s", post.Params.ServiceFeeTax, pre.Params.ServiceFeeTax)
		}
		if pre.Params.ArbitrationTimeLimit != post.Params.ArbitrationTimeLimit || pre.Params.ComplaintRetrospect != post.Params.ComplaintRetrospect {
			m.fail(sc, "C03", "S2-refund-preconditions", "periods-changed@restart", "the refund waiting periods changed across a zero-height restart")
		}
		if pre.Params.MaxRequestTimeout != post.Params.MaxRequestTimeout {
			m.fail(sc, "C08", "expiry-height-at-issue", "max-timeout-changed@restart", "the maximum request timeout is %d after a zero-height restart, was %d", post.Params.MaxRequestTimeout, pre.Params.MaxRequestTimeout)
		}
		if !pre.Params.MinDeposit.IsEqual(post.Params.MinDeposit) || pre.Params.MinDepositMultiple != post.Params.MinDepositMultiple {
			m.fail(sc, "C14", "min-deposit", "terms-changed@restart", "the minimum-deposit terms changed across a zero-height restart")
		}
	}
	if !post.Supply.Equal(pre.Supply) {
		m.fail(sc, "C04", "burn", "restart", "total supply went %s -> %s across a zero-height restart", pre.Supply, post.Supply)
	}
	// withdrawal addresses are owners' standing instructions: they survive a restart
	for o, a := range pre.Withdraw {
		if post.Withdraw[o] != a {
			m.fail(sc, "C13", "E4-withdraw-address", "lost@restart", "withdrawal address of %.8s (%.8s) is %q after a zero-height restart", o, a, post.Withdraw[o])
			m.fail(sc, "C19", "import-complete", "withdraw-address@restart", "withdrawal address of %.8s is lost or changed by a zero-height restart", o)
		}
	}
	for o := range post.Withdraw {
		if _, ok := pre.Withdraw[o]; !ok {
			m.fail(sc, "C13", "E4-withdraw-address", "appears@restart", "a withdrawal address for %.8s appears at a zero-height restart", o)
		}
	}
	m.hit("C13", "E4-survives-restart", fmt.Sprintf("n%d", minInt(len(pre.Withdraw), 3)))
	m.stepC15(sc, si)
	m.stepC20(sc, si)
}
