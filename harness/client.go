package main

// C18, the off-chain side: "a request's ID records its context, batch number, issue height and
// its position in that batch's issue event, which off-chain clients rely on to find it again".
// In commit-mode histories the repository's own client code (client/utils.QueryRequestByTxQuery)
// is run against a stand-in node that serves (a) ABCI queries through the application's real
// Query endpoint on the committed state and (b) the end-of-block events the application really
// returned for each height. What the client recovers for every request issued in a block must
// be the request the store holds.

import (
	"fmt"
	"strings"

	abci "github.com/tendermint/tendermint/abci/types"
	tmbytes "github.com/tendermint/tendermint/libs/bytes"
	rpcclient "github.com/tendermint/tendermint/rpc/client"
	ctypes "github.com/tendermint/tendermint/rpc/core/types"

	"github.com/cosmos/cosmos-sdk/client"

	clientutils "github.com/irismod/service/client/utils"
	"github.com/irismod/service/types"
)

// fakeNode implements the two node calls the client code needs; every other method of the
// embedded (nil) interface panics, which the caller reports as a harness problem.
type fakeNode struct {
	rpcclient.Client
	w *World
}

func (n fakeNode) ABCIQueryWithOptions(path string, data tmbytes.HexBytes, opts rpcclient.ABCIQueryOptions) (*ctypes.ResultABCIQuery, error) {
	res := n.w.a.app.Query(abci.RequestQuery{Path: path, Data: data, Height: opts.Height, Prove: opts.Prove})
	return &ctypes.ResultABCIQuery{Response: res}, nil
}

func (n fakeNode) ABCIQuery(path string, data tmbytes.HexBytes) (*ctypes.ResultABCIQuery, error) {
	return n.ABCIQueryWithOptions(path, data, rpcclient.DefaultABCIQueryOptions)
}

func (n fakeNode) BlockResults(height *int64) (*ctypes.ResultBlockResults, error) {
	if height == nil {
		return nil, fmt.Errorf("no height")
	}
	evs, ok := n.w.endBlockEvents[*height]
	if !ok {
		return nil, fmt.Errorf("no block results recorded for height %d", *height)
	}
	return &ctypes.ResultBlockResults{Height: *height, EndBlockEvents: evs}, nil
}

func (w *World) clientCtx() client.Context {
	enc := w.a.app.AppCodec()
	return client.Context{}.WithClient(fakeNode{w: w}).WithJSONMarshaler(enc).WithLegacyAmino(w.a.app.LegacyAmino()).
		WithInterfaceRegistry(w.a.app.InterfaceRegistry())
}

// checkClientRecovery runs after the block that issued the requests has been committed.
// pre / post are the snapshots around that block step.
func checkClientRecovery(m *Mon, sc *StepCtx) {
	w := sc.run.w
	cctx := w.clientCtx()
	n := 0
	for _, id := range sortedKeys(sc.Post.Requests) {
		if _, old := sc.Pre.Requests[id]; old {
			continue
		}
		if n >= 8 {
			break
		}
		n++
		cr := sc.Post.Requests[id]
		rc, ok := sc.Post.Contexts[hexs(cr.RequestContextId)]
		if !ok {
			continue
		}
		m.eval("C18")
		var got types.Request
		var err error
		var pv interface{}
		func() {
			defer func() { pv = recover() }()
			got, err = clientutils.QueryRequestByTxQuery(cctx, types.QuerierRoute, unhex(id))
		}()
		if pv != nil {
			m.fail(sc, "C18", "client-recovery", "panic", "the repository's client code panicked while recovering request %.24s.. from its ID: %v", id, pv)
			continue
		}
		m.hit("C18", "client-recovery", fmt.Sprintf("batch%d/n%d", minInt(int(cr.RequestContextBatchCounter), 3), minInt(int(rc.BatchRequestCount), 4)))
		if err != nil {
			// the issue event carries provider addresses in their bech32 text form, which can only be
			// read back for 20-byte addresses (D14): a batch with a provider of another length cannot
			// be parsed by the client at all
			odd := false
			for oid, o := range sc.Post.Requests {
				if hexs(o.RequestContextId) == hexs(cr.RequestContextId) && o.RequestContextBatchCounter == cr.RequestContextBatchCounter && len(o.Provider) != 20 {
					odd = true
					_ = oid
				}
			}
			if odd && strings.Contains(err.Error(), "incorrect address length") {
				m.fail(sc, "C18", "client-recovery", "address-length", "client could not find request %s again from its ID: the batch's issue event names a provider whose address is not 20 bytes long and cannot be read back from its text form: %v", id, err)
				continue
			}
			m.fail(sc, "C18", "client-recovery", "error", "client could not find request %s again from its ID (issued at height %d): %v", id, cr.RequestHeight, err)
			continue
		}
		want := types.NewRequest(unhex(id), rc.ServiceName, cr.Provider, rc.Consumer, rc.Input, cr.ServiceFee, rc.SuperMode,
			cr.RequestHeight, cr.ExpirationHeight, cr.RequestContextId, cr.RequestContextBatchCounter)
		gb, _ := got.Marshal()
		wb, _ := want.Marshal()
		if string(gb) != string(wb) {
			m.fail(sc, "C18", "client-recovery", "differs", "client recovered a different request from ID %s: got provider=%x fee=%s height=%d exp=%d batch=%d ctx=%x, stored provider=%x fee=%s height=%d exp=%d batch=%d ctx=%x",
				id, got.Provider, got.ServiceFee, got.RequestHeight, got.ExpirationHeight, got.RequestContextBatchCounter, []byte(got.RequestContextId),
				want.Provider, want.ServiceFee, want.RequestHeight, want.ExpirationHeight, want.RequestContextBatchCounter, []byte(want.RequestContextId))
		}
	}
}
