package main

// State invariants, evaluated on every snapshot (after genesis and after every step).

import (
	"bytes"
	"fmt"
	"math/big"

	sdk "github.com/cosmos/cosmos-sdk/types"

	"github.com/irismod/service/types"
)

func (m *Mon) checkState(sc *StepCtx) {
	s := sc.Post
	m.stateC01(sc, s)
	m.stateC03(sc, s)
	m.stateC11(sc, s)
	m.stateC11Markers(sc, s)
	m.stateC12(sc, s)
	m.stateC13(sc, s)
	m.stateC14(sc, s)
	m.stateC15(sc, s)
	m.stateC16(sc, s)
}

func stepClass(sc *StepCtx) string {
	if sc.Idx < 0 {
		return "genesis"
	}
	k := sc.opKind()
	if sc.IsMsg() {
		if cs, ok := sc.Msg.(*types.MsgCallService); ok && cs.ServiceName == modSvcName {
			k = "call_module_service"
		}
	}
	return k
}

// C01: escrow = sum of pending request fees + sum of provider earnings.
func (m *Mon) stateC01(sc *StepCtx, s *Snap) {
	m.eval("C01")
	w := sc.run.w
	escrow := s.Bal[w.addrOf("escrow")]
	pend := sdk.ZeroInt()
	for id := range s.ActiveID {
		if r, ok := s.Requests[id]; ok {
			pend = pend.Add(coinsAmt(r.ServiceFee))
		}
	}
	earned := s.sumEarned()
	want := pend.Add(earned)
	sit := fmt.Sprintf("esc%s/pend%s/earn%s", sgn(escrow), sgn(pend), sgn(earned))
	m.hit("C01", "backing", sit+"/"+stepClass(sc))
	if escrow.IsPositive() {
		m.hit("C01", "escrow-positive", "")
	}
	if pend.IsPositive() && earned.IsPositive() {
		m.hit("C01", "pending-and-earned", "")
	}
	if !escrow.Equal(want) {
		dir := "under-backed"
		if escrow.GT(want) {
			dir = "over-backed"
		}
		m.failState(sc, "C01", "backing", dir+"@"+stepClass(sc),
			"escrow balance %s != pending fees %s + earnings %s (after %s)", escrow, pend, earned, sc.Step.Desc)
	}
	// "requests still awaiting a response" are marked twice in the store (by ID and by binding);
	// the equation must hold whichever of the two markers is taken as the definition
	pendB := sdk.ZeroInt()
	for id := range s.ActiveBind {
		if r, ok := s.Requests[id]; ok {
			pendB = pendB.Add(coinsAmt(r.ServiceFee))
		}
	}
	if !pendB.Equal(pend) && !escrow.Equal(pendB.Add(earned)) {
		m.failState(sc, "C01", "backing", "by-binding-markers@"+stepClass(sc),
			"escrow balance %s != fees of the requests marked pending for their binding %s + earnings %s (the by-ID markers give %s; after %s)", escrow, pendB, earned, pend, sc.Step.Desc)
	}
}

func sgn(x sdk.Int) string {
	switch {
	case x.IsZero():
		return "0"
	case x.IsNegative():
		return "-"
	case x.Equal(sdk.OneInt()):
		return "1"
	}
	return "+"
}

// C03-I1: deposit account = sum of binding deposits.
func (m *Mon) stateC03(sc *StepCtx, s *Snap) {
	m.eval("C03")
	w := sc.run.w
	dep := s.Bal[w.addrOf("deposits")]
	sum := s.sumDeposits()
	m.hit("C03", "custody", fmt.Sprintf("dep%s/n%d/%s", sgn(dep), minInt(len(s.Bindings), 4), stepClass(sc)))
	if !dep.Equal(sum) {
		m.failState(sc, "C03", "custody", stepClass(sc), "deposit account %s != sum of binding deposits %s (after %s)", dep, sum, sc.Step.Desc)
	}
}

func minInt(a, b int) int {
	if a < b {
		return a
	}
	return b
}

// C11: queues and pointers, running contexts have exactly one event, pending requests are covered.
func (m *Mon) stateC11(sc *StepCtx, s *Snap) {
	m.eval("C11")
	// height below which an event is "in the past": after the block step of h the
	// snapshot height is h+1 (events must be > h i.e. >= h+1); after a message in
	// block h events must be >= h. Both read: event >= s.Height.
	low := s.Height
	chk := func(kind string, q map[string][]int64, ptr map[string]int64) {
		for id, hs := range q {
			if len(hs) > 1 {
				m.failState(sc, "C11", "Q1-duplicate-"+kind, "", "context %.16s has %d %s events %v", id, len(hs), kind, hs)
			}
			p, ok := ptr[id]
			if !ok || p != hs[0] {
				m.failState(sc, "C11", "Q1-pointer-"+kind, "", "context %.16s: %s queue entry at %v but pointer %v (present=%v)", id, kind, hs, p, ok)
			}
			if _, ok := s.Contexts[id]; !ok {
				m.failState(sc, "C11", "Q2-missing-context-"+kind, "", "%s event at %v refers to missing context %.16s", kind, hs, id)
			}
			for _, h := range hs {
				if h < low {
					m.failState(sc, "C11", "Q3-past-"+kind, pastClass(h), "%s event of context %.16s at height %d lies in the past (now %d)", kind, id, h, low)
				}
			}
			m.hit("C11", "Q1-"+kind, "")
		}
		for id, p := range ptr {
			if _, ok := q[id]; !ok {
				m.failState(sc, "C11", "Q1-pointer-"+kind, "dangling", "context %.16s: %s pointer %d without queue entry", id, kind, p)
			}
		}
	}
	chk("expiry", s.ExpQ, s.ExpPtr)
	chk("start", s.NewQ, s.NewPtr)
	for id, rc := range s.Contexts {
		if rc.State != types.RUNNING {
			continue
		}
		n := len(s.ExpQ[id]) + len(s.NewQ[id])
		which := "start"
		if len(s.ExpQ[id]) > 0 {
			which = "expiry"
		}
		if len(s.NewQ[id]) > 0 && len(s.ExpQ[id]) > 0 {
			which = "both"
		}
		m.hit("C11", "Q4-running-one-event", fmt.Sprintf("%s/rep%v/mod%v/ft%v", which, rc.Repeated, rc.ModuleName != "", rc.RepeatedFrequency == uint64(rc.Timeout)))
		if n != 1 {
			m.failState(sc, "C11", "Q4-running-one-event", fmt.Sprintf("n%d", n), "running context %.16s has %d scheduled events (start %v, expiry %v) after %s", id, n, s.NewQ[id], s.ExpQ[id], sc.Step.Desc)
		}
	}
	for id := range s.ActiveID {
		r, ok := s.Requests[id]
		if !ok {
			continue // C16
		}
		cid := hexs(r.RequestContextId)
		rc, ok := s.Contexts[cid]
		if !ok {
			m.failState(sc, "C11", "Q5-pending-covered", "no-context", "pending request %.24s.. belongs to missing context", id)
			continue
		}
		m.hit("C11", "Q5-pending-covered", fmt.Sprintf("state%d", rc.State))
		if r.RequestContextBatchCounter != rc.BatchCounter {
			m.failState(sc, "C11", "Q5-pending-covered", "old-batch", "pending request of batch %d but context %.16s is at batch %d", r.RequestContextBatchCounter, cid, rc.BatchCounter)
		}
		hs := s.ExpQ[cid]
		if len(hs) != 1 || hs[0] != r.ExpirationHeight {
			m.failState(sc, "C11", "Q5-pending-covered", "no-expiry-event", "pending request expiring at %d but context %.16s has expiry events %v (after %s)", r.ExpirationHeight, cid, hs, sc.Step.Desc)
		}
	}
}

// by-binding pending markers are "requests awaiting a response" too (they drive the
// provider-side listing): each must be covered by its context's pending expiry
func (m *Mon) stateC11Markers(sc *StepCtx, s *Snap) {
	for id, ab := range s.ActiveBind {
		cid, _, _, _, ok := reqParts(id)
		if !ok {
			continue
		}
		hs := s.ExpQ[cid]
		if _, has := s.Contexts[cid]; !has || len(hs) != 1 || hs[0] != ab.ExpHeight {
			m.failState(sc, "C11", "Q5-pending-covered", "by-binding-marker", "provider-side pending marker of request %.24s.. (expiry %d) is not covered by a pending expiry of its context (events %v) after %s", id, ab.ExpHeight, hs, sc.Step.Desc)
		}
	}
}

func pastClass(h int64) string {
	if h < 0 {
		return "negative-height"
	}
	return "past"
}

// C12 (state part): counts equal records; batch completed iff all answered / expiry passed.
func (m *Mon) stateC12(sc *StepCtx, s *Snap) {
	m.eval("C12")
	nReq := map[string]int{}
	nResp := map[string]int{}
	for id, r := range s.Requests {
		k := fmt.Sprintf("%s/%d", hexs(r.RequestContextId), r.RequestContextBatchCounter)
		nReq[k]++
		if _, ok := s.Responses[id]; ok {
			nResp[k]++
		}
	}
	for id, rc := range s.Contexts {
		_, hasExp := s.ExpPtr[id]
		k := fmt.Sprintf("%s/%d", id, rc.BatchCounter)
		if hasExp {
			sit := fmt.Sprintf("req%d/resp%d/bs%d/st%d", minInt(int(rc.BatchRequestCount), 4), minInt(int(rc.BatchResponseCount), 4), rc.BatchState, rc.State)
			m.hit("C12", "counts", sit)
			if int(rc.BatchRequestCount) != nReq[k] {
				m.failState(sc, "C12", "request-count", "", "context %.16s batch %d records %d requests, store has %d", id, rc.BatchCounter, rc.BatchRequestCount, nReq[k])
			}
			if int(rc.BatchResponseCount) != nResp[k] {
				m.failState(sc, "C12", "response-count", "", "context %.16s batch %d records %d responses, store has %d (after %s)", id, rc.BatchCounter, rc.BatchResponseCount, nResp[k], sc.Step.Desc)
			}
			all := rc.BatchRequestCount >= 1 && rc.BatchResponseCount == rc.BatchRequestCount
			if all != (rc.BatchState == types.BATCHCOMPLETED) {
				m.failState(sc, "C12", "batch-state", fmt.Sprintf("all%v", all), "context %.16s batch %d: %d/%d answered but batch state %s while expiry pending (after %s)", id, rc.BatchCounter, rc.BatchResponseCount, rc.BatchRequestCount, rc.BatchState, sc.Step.Desc)
			}
		} else {
			m.hit("C12", "idle-batch-completed", fmt.Sprintf("st%d/c%d", rc.State, minInt(int(rc.BatchCounter), 3)))
			if rc.BatchState != types.BATCHCOMPLETED {
				m.failState(sc, "C12", "batch-state", "running-without-expiry", "context %.16s has no pending expiry but batch %d is %s (after %s)", id, rc.BatchCounter, rc.BatchState, sc.Step.Desc)
			}
		}
	}
}

// C13-E1: owner record = sum of its providers' records.
func (m *Mon) stateC13(sc *StepCtx, s *Snap) {
	m.eval("C13")
	sum := map[string]sdk.Int{}
	for p, amt := range s.Earned {
		o, ok := s.ProvOwner[p]
		if !ok {
			if amt.IsPositive() {
				m.failState(sc, "C13", "E1-owner-sum", "ownerless", "provider %s has earnings %s but no owner", p, amt)
			}
			continue
		}
		if v, ok := sum[o]; ok {
			sum[o] = v.Add(amt)
		} else {
			sum[o] = amt
		}
	}
	owners := map[string]bool{}
	for o := range sum {
		owners[o] = true
	}
	for o := range s.OwnerEarned {
		owners[o] = true
	}
	for o := range owners {
		a, b := sdk.ZeroInt(), sdk.ZeroInt()
		if v, ok := sum[o]; ok {
			a = v
		}
		if v, ok := s.OwnerEarned[o]; ok {
			b = v
		}
		np := 0
		for p := range s.Earned {
			if s.ProvOwner[p] == o {
				np++
			}
		}
		m.hit("C13", "E1-owner-sum", fmt.Sprintf("np%d/%s", minInt(np, 4), sgn(b)))
		if !a.Equal(b) {
			m.failState(sc, "C13", "E1-owner-sum", stepClass(sc), "owner %.8s record %s != sum of its providers %s (after %s)", o, b, a, sc.Step.Desc)
		}
	}
}

// C14: available => deposit >= max(param, base price x multiple).
func (m *Mon) stateC14(sc *StepCtx, s *Snap) {
	m.eval("C14")
	for bk, b := range s.Bindings {
		if !b.Available {
			continue
		}
		if b.ServiceName == modSvcName && bytes.Equal(b.Provider, sc.run.w.a.modSvcProvider) {
			continue // host-installed module binding: exempt (see DESIGN C14)
		}
		op, err := ParsePricingText(b.Pricing)
		if err != nil {
			m.failState(sc, "C15", "pricing-text-parses", "", "binding %q pricing text unparsable: %v", bk, err)
			continue
		}
		min := MinDeposit(s.Params, op)
		dep := bi(coinsAmt(b.Deposit))
		c := dep.Cmp(min)
		which := "param"
		if new(big.Int).Mul(op.Base, big.NewInt(s.Params.MinDepositMultiple)).Cmp(amountOfLinear(s.Params.MinDeposit, denom).BigInt()) > 0 {
			which = "price"
		}
		m.hit("C14", "min-deposit", fmt.Sprintf("%s/cmp%d/%s", which, c, stepClass(sc)))
		if c < 0 {
			m.failState(sc, "C14", "min-deposit", stepClass(sc), "available binding %s/%.8s holds %s < minimum %s (after %s)", b.ServiceName, hexs(b.Provider), dep, min, sc.Step.Desc)
		}
	}
}

// C15 (state part): indexes in bijection with primary records, pricing record = parse(text), Validate().
func (m *Mon) stateC15(sc *StepCtx, s *Snap) {
	m.eval("C15")
	for name, d := range s.Defs {
		if err := d.Validate(); err != nil {
			m.failState(sc, "C15", "definition-valid", "", "stored definition %s fails Validate(): %v", name, err)
		}
	}
	obSeen := map[string]bool{}
	for _, ob := range s.OwnerBindings {
		k := bkey(ob.Service, unhex(ob.Provider))
		b, ok := s.Bindings[k]
		if !ok || hexs(b.Owner) != ob.Owner {
			m.failState(sc, "C15", "owner-index", "dangling", "owner-binding index entry (%.8s,%s,%.8s) has no matching binding", ob.Owner, ob.Service, ob.Provider)
		}
		obSeen[ob.Owner+"/"+k] = true
	}
	for bk, b := range s.Bindings {
		m.hit("C15", "binding-indexed", fmt.Sprintf("plen%d/av%v", len(b.Provider), b.Available))
		if _, ok := s.Defs[b.ServiceName]; !ok {
			m.failState(sc, "C15", "binding-defined", "", "binding for undefined service %s", b.ServiceName)
		}
		if !obSeen[hexs(b.Owner)+"/"+bk] {
			m.failState(sc, "C15", "owner-index", "missing", "binding (%s,%.8s) missing from its owner's index", b.ServiceName, hexs(b.Provider))
		}
		if o, ok := s.ProvOwner[hexs(b.Provider)]; !ok || o != hexs(b.Owner) {
			m.failState(sc, "C15", "provider-owner", "", "binding (%s,%.8s) owner %.8s but provider->owner says %.8s", b.ServiceName, hexs(b.Provider), hexs(b.Owner), o)
		}
		if !s.OwnerProv[hexs(b.Owner)+"/"+hexs(b.Provider)] {
			m.failState(sc, "C15", "owner-providers", "missing", "owner %.8s does not list provider %.8s", hexs(b.Owner), hexs(b.Provider))
		}
		if err := b.Validate(); err != nil {
			m.failState(sc, "C15", "binding-valid", "", "stored binding (%s,%.8s) fails Validate(): %v", b.ServiceName, hexs(b.Provider), err)
		}
		p, ok := s.Pricing[bk]
		if !ok {
			m.failState(sc, "C15", "pricing-record", "missing", "binding (%s,%.8s) has no pricing record", b.ServiceName, hexs(b.Provider))
			continue
		}
		op, err := ParsePricingText(b.Pricing)
		if err != nil {
			m.failState(sc, "C15", "pricing-text-parses", "", "pricing text unparsable: %v", err)
			continue
		}
		for i := range op.ByVol {
			if i > 0 && op.ByVol[i].Volume < op.ByVol[i-1].Volume {
				m.failState(sc, "C15", "pricing-well-ordered", "volume", "binding (%s,%.8s) stores volume promotions out of order (%d after %d): %s", b.ServiceName, hexs(b.Provider), op.ByVol[i].Volume, op.ByVol[i-1].Volume, b.Pricing)
			}
		}
		for i, t := range op.ByTime {
			if !t.End.After(t.Start) || (i > 0 && t.Start.Before(op.ByTime[i-1].End)) {
				m.failState(sc, "C15", "pricing-well-ordered", "time", "binding (%s,%.8s) stores time promotions that are empty or overlap: %s", b.ServiceName, hexs(b.Provider), b.Pricing)
			}
		}
		for _, d := range append(append([]*big.Rat{}, discountsOf(op)...)) {
			if d.Sign() <= 0 || d.Cmp(big.NewRat(1, 1)) >= 0 {
				m.failState(sc, "C15", "pricing-well-ordered", "discount", "binding (%s,%.8s) stores a discount outside (0,1): %s", b.ServiceName, hexs(b.Provider), b.Pricing)
			}
		}
		if msg := pricingDiff(op, p); msg != "" {
			m.failState(sc, "C15", "pricing-record", "differs", "binding (%s,%.8s): stored price terms differ from published text: %s (after %s)", b.ServiceName, hexs(b.Provider), msg, sc.Step.Desc)
		}
	}
	for pk := range s.Pricing {
		if _, ok := s.Bindings[pk]; !ok {
			m.failState(sc, "C15", "pricing-record", "dangling", "pricing record without binding")
		}
	}
	for op := range s.OwnerProv {
		var o, p string
		fmt.Sscanf(op, "%40s", &o)
		o, p = op[:40], op[41:]
		if s.ProvOwner[p] != o {
			m.failState(sc, "C15", "owner-providers", "dangling", "owner %.8s lists provider %.8s which belongs to %.8s", o, p, s.ProvOwner[p])
		}
	}
	for p, o := range s.ProvOwner {
		if !s.OwnerProv[o+"/"+p] {
			m.failState(sc, "C15", "owner-providers", "missing", "provider %.8s owned by %.8s not in owner's list", p, o)
		}
	}
}

func pricingDiff(op *OPricing, p types.Pricing) string {
	if len(p.Price) != 1 || p.Price[0].Denom != op.Denom || p.Price[0].Amount.BigInt().Cmp(op.Base) != 0 {
		return fmt.Sprintf("price %s vs text %s%s", p.Price, op.Base, op.Denom)
	}
	if len(p.PromotionsByTime) != len(op.ByTime) || len(p.PromotionsByVolume) != len(op.ByVol) {
		return "promotion counts differ"
	}
	for i, t := range p.PromotionsByTime {
		if !t.StartTime.Equal(op.ByTime[i].Start) || !t.EndTime.Equal(op.ByTime[i].End) || decRat(t.Discount).Cmp(op.ByTime[i].Discount) != 0 {
			return fmt.Sprintf("time promotion %d differs", i)
		}
	}
	for i, v := range p.PromotionsByVolume {
		if v.Volume != op.ByVol[i].Volume || decRat(v.Discount).Cmp(op.ByVol[i].Discount) != 0 {
			return fmt.Sprintf("volume promotion %d differs", i)
		}
	}
	return ""
}

// C16 (state part): no orphans.
func (m *Mon) stateC16(sc *StepCtx, s *Snap) {
	m.eval("C16")
	for id, r := range s.Requests {
		cid := hexs(r.RequestContextId)
		pc, pn, ph, _, ok := reqParts(id)
		if !ok || pc != cid || pn != r.RequestContextBatchCounter || ph != r.RequestHeight {
			m.failState(sc, "C18", "request-id-fields", "", "request id %s does not encode its record (ctx %.16s batch %d height %d)", id, cid, r.RequestContextBatchCounter, r.RequestHeight)
		}
		rc, ok := s.Contexts[cid]
		if !ok {
			m.failState(sc, "C16", "orphan-request", "no-context", "request record %.24s.. of missing context %.16s (after %s)", id, cid, sc.Step.Desc)
			continue
		}
		m.hit("C16", "request-in-current-batch", fmt.Sprintf("st%d/bs%d", rc.State, rc.BatchState))
		if r.RequestContextBatchCounter != rc.BatchCounter {
			m.failState(sc, "C16", "orphan-request", "old-batch", "request record of batch %d but context %.16s is at batch %d (after %s)", r.RequestContextBatchCounter, cid, rc.BatchCounter, sc.Step.Desc)
		}
	}
	for id := range s.Responses {
		if _, ok := s.Requests[id]; !ok {
			m.failState(sc, "C16", "orphan-response", "", "response record %.24s.. without request record (after %s)", id, sc.Step.Desc)
		} else {
			m.hit("C16", "response-has-request", "")
		}
	}
	for id := range s.ActiveID {
		if _, ok := s.Requests[id]; !ok {
			m.failState(sc, "C16", "orphan-marker", "by-id", "pending marker %.24s.. without request record", id)
		}
		ab, ok := s.ActiveBind[id]
		if !ok {
			m.failState(sc, "C16", "marker-indexes-agree", "missing-by-binding", "request %.24s.. pending by id but not by binding", id)
			continue
		}
		m.hit("C16", "marker-indexes-agree", "")
		if r, ok := s.Requests[id]; ok {
			rc := s.Contexts[hexs(r.RequestContextId)]
			if ab.ExpHeight != r.ExpirationHeight || ab.ProvBech != r.Provider.String() || (rc.ServiceName != "" && ab.Service != rc.ServiceName) {
				m.failState(sc, "C16", "marker-indexes-agree", "fields", "by-binding marker of %.24s.. has (%s,%s,%d), request says (%s,%s,%d)", id, ab.Service, ab.ProvBech, ab.ExpHeight, rc.ServiceName, r.Provider.String(), r.ExpirationHeight)
			}
		}
	}
	for id := range s.ActiveBind {
		if !s.ActiveID[id] {
			m.failState(sc, "C16", "marker-indexes-agree", "missing-by-id", "request %.24s.. pending by binding but not by id (after %s)", id, sc.Step.Desc)
		}
	}
	if len(s.ActiveBindDup) > 0 {
		m.failState(sc, "C16", "marker-indexes-agree", "duplicate", "request has two by-binding markers")
	}
}

func discountsOf(op *OPricing) []*big.Rat {
	var out []*big.Rat
	for _, t := range op.ByTime {
		out = append(out, t.Discount)
	}
	for _, v := range op.ByVol {
		out = append(out, v.Discount)
	}
	return out
}
