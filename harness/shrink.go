package main

// Bounded delta debugging of a witness history: drop chunks of steps as long as the same
// violation signature is still reported when the shortened history is replayed.

import "time"

func stillFails(h *History, sig string) bool {
	defer func() { recover() }()
	st := NewStats()
	mon := NewMon(st)
	if len(sig) >= 3 {
		switch sig[:3] {
		case "C19", "C03", "C09", "C10":
			attachC19(mon, 23)
		case "C17", "C15":
			attachC17(mon, 29)
		}
	}
	Replay(NewApp(), h, mon)
	for _, v := range st.Violations {
		if v.Sig == sig {
			return true
		}
	}
	return false
}

// shrinkHistory returns a history that still shows sig, at most as long as h.
func shrinkHistory(h *History, sig string, budget time.Duration) *History {
	deadline := time.Now().Add(budget)
	cur := *h
	cur.Steps = append([]Step(nil), h.Steps...)
	if !stillFails(&cur, sig) {
		return h // scenario-sampled violations may not reproduce from the prefix alone
	}
	for chunk := len(cur.Steps) / 2; chunk >= 1; chunk /= 2 {
		for start := 0; start+chunk <= len(cur.Steps); {
			if time.Now().After(deadline) {
				return &cur
			}
			cand := cur
			cand.Steps = append(append([]Step(nil), cur.Steps[:start]...), cur.Steps[start+chunk:]...)
			if stillFails(&cand, sig) {
				cur = cand
			} else {
				start += chunk
			}
		}
	}
	return &cur
}
