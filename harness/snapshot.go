package main

// Observer: a snapshot is built from a raw scan of the whole "service" KV store
// plus bank reads. No keeper getter, iterator helper or key function of the module
// under test is used: keys are split by their one-byte prefix and by the layout
// documented in the property anchors, values are decoded with the protobuf types.

import (
	"bytes"
	"crypto/sha256"
	"encoding/binary"
	"fmt"
	"sort"
	"time"

	gogotypes "github.com/gogo/protobuf/types"

	sdk "github.com/cosmos/cosmos-sdk/types"

	"github.com/irismod/service/types"
)

type BindingRec struct {
	B      types.ServiceBinding
	RawKey string
}

type ActiveRec struct {
	Service   string
	ProvBech  string
	ExpHeight int64
	ReqID     string
}

type OwnerBindingRec struct {
	Owner, Service, Provider string // hex, name, hex
}

type Snap struct {
	Height int64
	Time   time.Time
	Params types.Params

	Defs          map[string]types.ServiceDefinition
	DefRaw        map[string]string
	Bindings      map[string]types.ServiceBinding // bkey(service, provider)
	OwnerBindings map[string]OwnerBindingRec      // raw key hex -> parsed
	ProvOwner     map[string]string               // provider hex -> owner hex
	OwnerProv     map[string]bool                 // owner hex + "/" + provider hex
	Pricing       map[string]types.Pricing        // bkey
	Withdraw      map[string]string               // owner hex -> addr hex

	Contexts map[string]types.RequestContext
	CtxRaw   map[string]string
	ExpQ     map[string][]int64 // ctx -> heights found in the 0x09 queue
	ExpPtr   map[string]int64   // ctx -> 0x11 pointer
	NewQ     map[string][]int64 // 0x10
	NewPtr   map[string]int64   // 0x12

	Requests      map[string]types.CompactRequest
	ActiveBind    map[string]ActiveRec // request id -> by-binding marker (0x14)
	ActiveBindDup []string
	ActiveID      map[string]bool // 0x15
	Responses     map[string]types.Response
	Volumes       map[string]uint64  // consumerBech \x00 service \x00 providerBech
	Earned        map[string]sdk.Int // provider hex (base denom)
	EarnedRawKeys map[string]string  // raw key hex -> provider hex
	OwnerEarned   map[string]sdk.Int // owner hex

	Bal    map[string]sdk.Int // tracked addr hex -> base-denom balance
	Supply sdk.Int
	Digest string

	Problems    []string // undecodable / unexpected keys or values
	NKeys       int
	UnknownKeys int
}

func bkey(service string, provider []byte) string { return service + "\x00" + hexs(provider) }

func (s *Snap) problem(f string, a ...interface{}) {
	if len(s.Problems) < 20 {
		s.Problems = append(s.Problems, fmt.Sprintf(f, a...))
	}
}

func onlyBase(s *Snap, what string, cs sdk.Coins) sdk.Int {
	amt := sdk.ZeroInt()
	for _, c := range cs {
		if c.Denom != denom {
			s.problem("%s holds foreign denom %s", what, c.Denom)
			continue
		}
		amt = amt.Add(c.Amount)
	}
	return amt
}

// TakeSnap scans the store of the current history branch.
func (w *World) TakeSnap() *Snap { return w.SnapOf(w.curCtx()) }

// SnapOf scans the store as seen by ctx (used for throw-away branches too).
func (w *World) SnapOf(ctx sdk.Context) *Snap {
	s := &Snap{Height: w.height, Time: w.now,
		Defs: map[string]types.ServiceDefinition{}, DefRaw: map[string]string{},
		Bindings: map[string]types.ServiceBinding{}, OwnerBindings: map[string]OwnerBindingRec{},
		ProvOwner: map[string]string{}, OwnerProv: map[string]bool{}, Pricing: map[string]types.Pricing{},
		Withdraw: map[string]string{}, Contexts: map[string]types.RequestContext{}, CtxRaw: map[string]string{},
		ExpQ: map[string][]int64{}, ExpPtr: map[string]int64{}, NewQ: map[string][]int64{}, NewPtr: map[string]int64{},
		Requests: map[string]types.CompactRequest{}, ActiveBind: map[string]ActiveRec{}, ActiveID: map[string]bool{},
		Responses: map[string]types.Response{}, Volumes: map[string]uint64{}, Earned: map[string]sdk.Int{},
		EarnedRawKeys: map[string]string{}, OwnerEarned: map[string]sdk.Int{}, Bal: map[string]sdk.Int{},
	}
	// params live in the params module's store; read them there, not through the keeper under test
	if ss, ok := w.a.app.ParamsKeeper.GetSubspace(types.ModuleName); ok {
		ss.GetParamSet(ctx, &s.Params)
	} else {
		s.Params = w.a.k.GetParams(ctx)
	}
	store := ctx.KVStore(w.a.app.GetKey(types.StoreKey))
	h := sha256.New()
	it := store.Iterator(nil, nil)
	for ; it.Valid(); it.Next() {
		k := append([]byte(nil), it.Key()...)
		v := append([]byte(nil), it.Value()...)
		s.NKeys++
		var lb [8]byte
		binary.BigEndian.PutUint32(lb[:4], uint32(len(k)))
		binary.BigEndian.PutUint32(lb[4:], uint32(len(v)))
		h.Write(lb[:])
		h.Write(k)
		h.Write(v)
		s.decode(k, v)
	}
	it.Close()

	bank := w.a.app.BankKeeper
	for _, ah := range w.trackedOrd {
		addr := sdk.AccAddress(unhex(ah))
		// exact-key read: the bank store is itself scanned by address prefix, so
		// GetAllBalances of an address that extends another one would see the other's coins
		amt := bank.GetBalance(ctx, addr, denom).Amount
		if n := w.tracked[ah]; n == "escrow" || n == "deposits" {
			for _, c := range bank.GetAllBalances(ctx, addr) {
				if c.Denom != denom {
					s.problem("module account %s holds foreign denom %s", n, c.Denom)
				}
			}
		}
		s.Bal[ah] = amt
		h.Write([]byte(ah))
		h.Write([]byte(amt.String()))
	}
	s.Supply = bank.GetSupply(ctx).GetTotal().AmountOf(denom)
	h.Write([]byte(s.Supply.String()))
	s.Digest = hexs(h.Sum(nil))
	return s
}

func (s *Snap) decode(k, v []byte) {
	if len(k) == 0 {
		s.problem("empty key")
		return
	}
	body := k[1:]
	switch k[0] {
	case 0x01:
		var d types.ServiceDefinition
		if err := d.Unmarshal(v); err != nil {
			s.problem("definition undecodable: %v", err)
			return
		}
		if string(body) != d.Name {
			s.problem("definition key %q holds record named %q", body, d.Name)
		}
		s.Defs[string(body)] = d
		s.DefRaw[string(body)] = hexs(v)
	case 0x02:
		var b types.ServiceBinding
		if err := b.Unmarshal(v); err != nil {
			s.problem("binding undecodable: %v", err)
			return
		}
		exp := append(append([]byte(b.ServiceName), 0), []byte(b.Provider.String())...)
		if !bytes.Equal(body, exp) {
			s.problem("binding key %x does not match record (%s,%x)", body, b.ServiceName, []byte(b.Provider))
		}
		if _, dup := s.Bindings[bkey(b.ServiceName, b.Provider)]; dup {
			s.problem("two binding records for (%s,%x)", b.ServiceName, []byte(b.Provider))
		}
		s.Bindings[bkey(b.ServiceName, b.Provider)] = b
	case 0x03:
		if len(body) < 21 {
			s.problem("owner-binding key too short %x", body)
			return
		}
		owner := body[:20]
		rest := body[20:]
		i := bytes.IndexByte(rest, 0)
		if i < 0 {
			s.problem("owner-binding key without separator %x", body)
			return
		}
		s.OwnerBindings[hexs(k)] = OwnerBindingRec{Owner: hexs(owner), Service: string(rest[:i]), Provider: hexs(rest[i+1:])}
	case 0x04:
		var bv gogotypes.BytesValue
		if err := bv.Unmarshal(v); err != nil {
			s.problem("owner record undecodable")
			return
		}
		s.ProvOwner[hexs(body)] = hexs(bv.Value)
	case 0x05:
		if len(body) < 21 {
			s.problem("owner-provider key too short %x", body)
			return
		}
		s.OwnerProv[hexs(body[:20])+"/"+hexs(body[20:])] = true
	case 0x06:
		var p types.Pricing
		if err := p.Unmarshal(v); err != nil {
			s.problem("pricing undecodable: %v", err)
			return
		}
		i := bytes.IndexByte(body, 0)
		if i < 0 {
			s.problem("pricing key without separator")
			return
		}
		addr, err := sdk.AccAddressFromBech32(string(body[i+1:]))
		if err != nil {
			// bech32 of a non-20-byte address: decode without the length check
			addr2, err2 := sdk.GetFromBech32(string(body[i+1:]), sdk.GetConfig().GetBech32AccountAddrPrefix())
			if err2 != nil {
				s.problem("pricing key with undecodable provider %q", body[i+1:])
				return
			}
			addr = addr2
		}
		s.Pricing[bkey(string(body[:i]), addr)] = p
	case 0x07:
		s.Withdraw[hexs(body)] = hexs(v)
	case 0x08:
		var rc types.RequestContext
		if err := rc.Unmarshal(v); err != nil {
			s.problem("context undecodable: %v", err)
			return
		}
		if len(body) != 40 {
			s.problem("context key of length %d", len(body))
		}
		s.Contexts[hexs(body)] = rc
		s.CtxRaw[hexs(body)] = hexs(v)
	case 0x09, 0x10:
		if len(body) != 48 {
			s.problem("queue key %x of length %d", k[0], len(body))
			return
		}
		ht := int64(binary.BigEndian.Uint64(body[:8]))
		id := hexs(body[8:])
		var bv gogotypes.BytesValue
		if err := bv.Unmarshal(v); err != nil || hexs(bv.Value) != id {
			s.problem("queue entry %x value does not name its context", k[0])
		}
		if k[0] == 0x09 {
			s.ExpQ[id] = append(s.ExpQ[id], ht)
		} else {
			s.NewQ[id] = append(s.NewQ[id], ht)
		}
	case 0x11, 0x12:
		var iv gogotypes.Int64Value
		if err := iv.Unmarshal(v); err != nil {
			s.problem("queue pointer undecodable")
			return
		}
		if k[0] == 0x11 {
			s.ExpPtr[hexs(body)] = iv.Value
		} else {
			s.NewPtr[hexs(body)] = iv.Value
		}
	case 0x13:
		var r types.CompactRequest
		if err := r.Unmarshal(v); err != nil {
			s.problem("request undecodable: %v", err)
			return
		}
		if len(body) != 58 {
			s.problem("request key of length %d", len(body))
		}
		s.Requests[hexs(body)] = r
	case 0x14:
		if len(body) < 58+8+1 {
			s.problem("active key too short")
			return
		}
		rid := body[len(body)-58:]
		ht := int64(binary.BigEndian.Uint64(body[len(body)-66 : len(body)-58]))
		head := body[:len(body)-66]
		if len(head) == 0 || head[len(head)-1] != 0 {
			s.problem("active key without separator before height")
			return
		}
		head = head[:len(head)-1]
		i := bytes.IndexByte(head, 0)
		if i < 0 {
			s.problem("active key without service/provider separator")
			return
		}
		var bv gogotypes.BytesValue
		if err := bv.Unmarshal(v); err != nil || !bytes.Equal(bv.Value, rid) {
			s.problem("active marker value does not name its request")
		}
		if _, dup := s.ActiveBind[hexs(rid)]; dup {
			s.ActiveBindDup = append(s.ActiveBindDup, hexs(rid))
		}
		s.ActiveBind[hexs(rid)] = ActiveRec{Service: string(head[:i]), ProvBech: string(head[i+1:]), ExpHeight: ht, ReqID: hexs(rid)}
	case 0x15:
		if len(body) != 58 {
			s.problem("active-by-id key of length %d", len(body))
		}
		var bv gogotypes.BytesValue
		if err := bv.Unmarshal(v); err != nil || !bytes.Equal(bv.Value, body) {
			s.problem("active-by-id marker value does not name its request")
		}
		s.ActiveID[hexs(body)] = true
	case 0x16:
		var r types.Response
		if err := r.Unmarshal(v); err != nil {
			s.problem("response undecodable: %v", err)
			return
		}
		s.Responses[hexs(body)] = r
	case 0x17:
		var uv gogotypes.UInt64Value
		if err := uv.Unmarshal(v); err != nil {
			s.problem("volume undecodable")
			return
		}
		if len(body) == 0 || body[len(body)-1] != 0 {
			s.problem("volume key without trailing separator")
			return
		}
		s.Volumes[string(body[:len(body)-1])] = uv.Value
	case 0x18:
		var c sdk.Coin
		if err := c.Unmarshal(v); err != nil {
			s.problem("earned-fee record undecodable")
			return
		}
		if c.Denom != denom {
			s.problem("earned-fee record in foreign denom %s", c.Denom)
			return
		}
		if !bytes.HasSuffix(body, []byte(c.Denom)) {
			s.problem("earned-fee key does not end in its denom")
			return
		}
		p := hexs(body[:len(body)-len(c.Denom)])
		if prev, ok := s.Earned[p]; ok {
			s.Earned[p] = prev.Add(c.Amount)
		} else {
			s.Earned[p] = c.Amount
		}
		s.EarnedRawKeys[hexs(k)] = p
	case 0x19:
		var c sdk.Coin
		if err := c.Unmarshal(v); err != nil {
			s.problem("owner-earned record undecodable")
			return
		}
		if c.Denom != denom {
			s.problem("owner-earned record in foreign denom %s", c.Denom)
			return
		}
		s.OwnerEarned[hexs(body)] = c.Amount
	default:
		// a record kind this observer does not know (e.g. an index added by a later version):
		// counted, not judged
		s.UnknownKeys++
	}
}

// ---- helpers over a snapshot ----

func coinsAmt(cs sdk.Coins) sdk.Int { return cs.AmountOf(denom) }

// Pending returns the IDs in the by-ID pending index.
func (s *Snap) PendingIDs() []string {
	out := make([]string, 0, len(s.ActiveID))
	for id := range s.ActiveID {
		out = append(out, id)
	}
	sort.Strings(out)
	return out
}

func (s *Snap) bal(addr []byte) sdk.Int {
	if v, ok := s.Bal[hexs(addr)]; ok {
		return v
	}
	return sdk.ZeroInt()
}

func (s *Snap) earned(p string) sdk.Int {
	if v, ok := s.Earned[p]; ok {
		return v
	}
	return sdk.ZeroInt()
}

func (s *Snap) ownerEarned(o string) sdk.Int {
	if v, ok := s.OwnerEarned[o]; ok {
		return v
	}
	return sdk.ZeroInt()
}

func (s *Snap) sumEarned() sdk.Int {
	t := sdk.ZeroInt()
	for _, v := range s.Earned {
		t = t.Add(v)
	}
	return t
}

func (s *Snap) sumDeposits() sdk.Int {
	t := sdk.ZeroInt()
	for _, b := range s.Bindings {
		t = t.Add(coinsAmt(b.Deposit))
	}
	return t
}

// reqParts splits a request ID by layout (40-byte context, counter, height, index).
func reqParts(ridHex string) (ctx string, counter uint64, height int64, idx int16, ok bool) {
	b := unhex(ridHex)
	if len(b) != 58 {
		return "", 0, 0, 0, false
	}
	return hexs(b[:40]), binary.BigEndian.Uint64(b[40:48]), int64(binary.BigEndian.Uint64(b[48:56])), int16(binary.BigEndian.Uint16(b[56:])), true
}

func sortedKeys(m interface{}) []string {
	var out []string
	switch mm := m.(type) {
	case map[string]types.RequestContext:
		for k := range mm {
			out = append(out, k)
		}
	case map[string]types.ServiceBinding:
		for k := range mm {
			out = append(out, k)
		}
	case map[string]types.CompactRequest:
		for k := range mm {
			out = append(out, k)
		}
	case map[string]bool:
		for k := range mm {
			out = append(out, k)
		}
	case map[string]sdk.Int:
		for k := range mm {
			out = append(out, k)
		}
	case map[string]string:
		for k := range mm {
			out = append(out, k)
		}
	case map[string]types.ServiceDefinition:
		for k := range mm {
			out = append(out, k)
		}
	case map[string]types.Response:
		for k := range mm {
			out = append(out, k)
		}
	default:
		panic("sortedKeys: unsupported map type")
	}
	sort.Strings(out)
	return out
}
